package main

import (
	"go/token"
	"go/types"

	"golang.org/x/tools/go/ssa"

	"encoding/json"
	"fmt"
	"os"
	"path/filepath"
	"sort"
	"strings"
	"time"
)

type KnownFinding struct {
	Property string `json:"property"`
	Status   string `json:"status"` // open | fixed
	Match    string `json:"match"`  // substring matched against "<harness>/<assert-name>/<cases>"
	What     string `json:"what"`
	Commit   string `json:"commit,omitempty"`
}

func loadKnown() []KnownFinding {
	b, err := os.ReadFile("/verif/known_findings.json")
	if err != nil {
		return nil
	}
	var ks struct {
		Findings []KnownFinding `json:"findings"`
	}
	json.Unmarshal(b, &ks)
	return ks.Findings
}

func violationKey(v *Violation) string {
	var cs []string
	for k, x := range v.Cases {
		cs = append(cs, fmt.Sprintf("%s=%d", k, x))
	}
	sort.Strings(cs)
	return v.Harness + "/" + v.Name + "/" + strings.Join(cs, ",")
}

func report(prop, tier string, seed int, out string, results []jobResult, loaded []*Loaded, wall time.Duration, doReplay bool) int {
	known := loadKnown()
	paths, steps, oblig, proved, folded, complete := 0, 0, 0, 0, 0, 0
	var undecided, unknown, notes, engineErrs []string
	var viols []*Violation
	funcs := map[string]int{}
	intr := map[string]bool{}
	solver := map[string]*BackendStat{}
	var samples []map[string]any
	var witnesses []map[string]any
	caseSumm := []map[string]any{}
	solverPaths := 0
	for _, jr := range results {
		r := jr.res
		paths += r.NPaths
		steps += r.Steps
		for _, pr := range r.Paths {
			if pr.Outcome == "complete" && pr.Decisions > 0 {
				solverPaths++
			}
		}
		oblig += r.NOblig
		proved += r.Proved
		folded += r.Folded
		complete += r.Complete
		for _, u := range r.Undecided {
			undecided = append(undecided, fmt.Sprintf("%s%v: %s", r.Harness, r.Cases, u))
		}
		for _, u := range r.Unknown {
			unknown = append(unknown, fmt.Sprintf("%s%v: %s", r.Harness, r.Cases, u))
		}
		for _, n := range r.Notes {
			notes = appendUniq(notes, n)
		}
		if r.EngineError != "" {
			engineErrs = append(engineErrs, fmt.Sprintf("%s%v: %s", r.Harness, r.Cases, r.EngineError))
		}
		viols = append(viols, r.Violations...)
		for k, v := range r.Funcs {
			funcs[k] = v
		}
		for k := range r.Intrinsics {
			intr[k] = true
		}
		for k, v := range r.Solver {
			if solver[k] == nil {
				solver[k] = &BackendStat{}
			}
			solver[k].Queries += v.Queries
			solver[k].Sat += v.Sat
			solver[k].Unsat += v.Unsat
			solver[k].Unknown += v.Unknown
			solver[k].TimeS += v.TimeS
		}
		if len(samples) < 6 {
			samples = append(samples, r.Samples...)
		}
		if r.Witness != nil && len(witnesses) < 200 {
			witnesses = append(witnesses, map[string]any{"harness": r.Harness, "cases": r.Cases, "model": r.Witness, "digests": r.WitnessDig, "observes": r.WitnessObs})
		}
		caseSumm = append(caseSumm, map[string]any{"harness": r.Harness, "cases": r.Cases, "paths": r.NPaths, "complete": r.Complete,
			"obligations": r.NOblig, "proved": r.Proved, "folded": r.Folded, "violations": len(r.Violations), "undecided": len(r.Undecided), "wall_s": r.WallS})
	}
	// vacuity: every harness instance must have at least one complete path with a model
	var vacuous []string
	for _, jr := range results {
		// (an instance the time budget did not let finish is "not decided", listed as such, not vacuous)
		if jr.res.Witness == nil && !jr.res.Skipped && len(jr.res.Violations) == 0 && jr.res.EngineError == "" && len(jr.res.Undecided) == 0 && jr.spec.Opts["may_be_vacuous"] == "" {
			vacuous = append(vacuous, fmt.Sprintf("%s%v", jr.res.Harness, jr.res.Cases))
		}
	}
	// replay: violations + witnesses natively
	validated := 0
	var replayNotes []string
	if doReplay {
		validated, replayNotes = replayAll(prop, results, viols, loaded)
	} else {
		for _, v := range viols {
			v.Replayed = "skipped"
		}
	}
	for _, jr := range results {
		if jr.res.EngineError != "" {
			msg := fmt.Sprintf("%s%v: %s", jr.res.Harness, jr.res.Cases, jr.res.EngineError)
			engineErrs = appendUniq(engineErrs, msg)
		}
	}
	// the native side must have run: without it neither witnesses (translator validation) nor
	// models are confirmed, and a pass would rest on the encoder alone
	for _, n := range replayNotes {
		if strings.HasPrefix(n, "native replay failed") {
			engineErrs = appendUniq(engineErrs, firstN(n, 600))
		}
	}
	// classify violations
	exit := 0
	var lines []string
	nViol := 0
	printedKnown := map[string]bool{}
	printedPer := map[string]int{}
	confirmedAssert := map[string]bool{}
	for _, v := range viols {
		if v.Replayed == "confirmed" {
			confirmedAssert[v.Harness+"/"+v.Name] = true
		}
	}
	for _, v := range viols {
		key := violationKey(v)
		if v.Replayed == "not-reproduced" || v.Replayed == "error" {
			if confirmedAssert[v.Harness+"/"+v.Name] {
				// the same assertion of the same harness is confirmed natively for another instance; this
				// model depends on values of an uninterpreted function and adds nothing
				notes = append(notes, "unconfirmed additional model for "+key+" (same assertion confirmed natively in another instance)")
				continue
			}
			engineErrs = append(engineErrs, "UNCONFIRMED model for "+key+": "+v.Replayed)
			continue
		}
		matched := false
		for _, k := range known {
			if k.Property == prop && k.Status == "open" && strings.Contains(key, k.Match) {
				matched = true
				v.Known = k.What
				if !printedKnown[k.Match] {
					printedKnown[k.Match] = true
					lines = append(lines, fmt.Sprintf("KNOWN-FINDING: property=%s %s", prop, k.What))
				}
			}
		}
		if !matched {
			nViol++
			exit = 1
			printedPer[v.Harness+"/"+v.Name]++
			if printedPer[v.Harness+"/"+v.Name] > 3 {
				continue
			}
			rp := v.Replay
			if rp == "" {
				rp = "(no replay: --no-replay)"
			}
			lines = append(lines, fmt.Sprintf("VIOLATION property=%s replay=%s", prop, rp))
			lines = append(lines, fmt.Sprintf("  %s %s model=%s", key, v.Detail, shortModel(v.Model)))
		}
	}
	if len(engineErrs) > 0 && exit == 0 {
		exit = 2
	}
	if len(vacuous) > 0 && exit == 0 {
		exit = 2
		engineErrs = append(engineErrs, "VACUOUS harness instances (no satisfiable complete path): "+strings.Join(vacuous, " "))
	}
	for _, l := range lines {
		fmt.Println(l)
	}
	for _, e := range engineErrs {
		fmt.Println("ENGINE-ERROR", firstN(e, 2000))
	}
	fmt.Printf("property=%s tier=%s harness_instances=%d paths=%d complete=%d ssa_instr=%d obligations=%d proved=%d folded=%d undischarged=%d undecided_paths=%d violations=%d validated=%d wall=%.1fs\n",
		prop, tier, len(results), paths, complete, steps, oblig, proved, folded, len(unknown), len(undecided), nViol, validated, wall.Seconds())
	for _, u := range undecided {
		fmt.Println("  NOT-DECIDED", firstN(u, 400))
	}
	for _, u := range unknown {
		fmt.Println("  UNDISCHARGED", firstN(u, 400))
	}
	for i, n := range replayNotes {
		if i >= 8 {
			fmt.Printf("  replay: ... %d more notes in the evidence file\n", len(replayNotes)-i)
			break
		}
		fmt.Println("  replay:", n)
	}

	if out != "" {
		var fl []string
		for k, v := range funcs {
			fl = append(fl, fmt.Sprintf("%s (%d instr)", k, v))
		}
		sort.Strings(fl)
		files := map[string]string{}
		for _, l := range loaded {
			for k, v := range l.srcFiles {
				files[k] = v
			}
		}
		var vs []any
		for _, v := range viols {
			vs = append(vs, v)
		}
		if len(samples) == 0 {
			samples = append(samples, map[string]any{"note": "no complete path"})
		}
		stime := 0.0
		for _, s := range solver {
			stime += s.TimeS
		}
		// non-trivial = obligations that needed a solver verdict + complete paths that exist only because
		// the solver decided at least one symbolic branch on the way (their assertions then fold to constants)
		nontrivial := proved + nViol + solverPaths
		ev := map[string]any{
			"property_id": prop, "tier": tier, "seed": seed, "level": "model_checking",
			"coverage": map[string]any{
				"states":                         max(paths, 1),
				"transitions":                    max(steps, 1),
				"traces_validated_against_impl":  validated,
				"samples":                        samples,
				"obligations":                    oblig,
				"discharged":                     proved + folded,
				"discharged_by_solver":           proved,
				"discharged_by_constant_folding": folded,
				"undischarged":                   unknown,
				"undecided_paths":                undecided,
				"evaluations":                    max(oblig, 1),
				"distinct_nontrivial":            nontrivial,
				"rule":                           "one evaluation = one assertion instance on one symbolic path of one harness instance; non-trivial = needed a solver verdict (not decided by constant folding); states = symbolic paths, transitions = SSA instructions executed symbolically",
				"complete_paths":                 complete,
				"harness_instances":              caseSumm,
				"functions_encoded":              fl,
				"intrinsics_and_stubs":           sortedKeys(intr),
				"source_sha256":                  files,
				"solver":                         solver,
				"solver_time_s":                  stime,
				"bounds_and_notes":               notes,
				"reachability_witnesses":         firstAny(witnesses, 5),
				"violations_detail":              vs,
				"engine_errors":                  engineErrs,
				"replay_notes":                   replayNotes,
				"exhaustive":                     false,
			},
			"assumptions": assumptionsFor(prop),
			"wall_s":      wall.Seconds(),
			"violations":  nViol,
		}
		if prop == "C10" && len(loaded) > 0 {
			cov, unc := exportCoverage(loaded[0], funcs)
			ev["coverage"].(map[string]any)["exported_operations_reached"] = cov
			ev["coverage"].(map[string]any)["exported_operations_not_reached"] = unc
		}
		b, _ := json.MarshalIndent(ev, "", " ")
		os.MkdirAll(filepath.Dir(out), 0o755)
		os.WriteFile(out, b, 0o644)
	}
	return exit
}

func firstAny(xs []map[string]any, n int) []map[string]any {
	if len(xs) > n {
		return xs[:n]
	}
	return xs
}

// exportCoverage lists the exported functions and methods of package otp (discovered from the
// SSA program on every run) that were / were not executed by the harnesses of this run.
func exportCoverage(l *Loaded, funcs map[string]int) (covered, uncovered []string) {
	for _, sp := range l.spkgs {
		if sp == nil || sp.Pkg.Path() != "github.com/ja7ad/otp" {
			continue
		}
		var names []string
		for name, m := range sp.Members {
			switch x := m.(type) {
			case *ssa.Function:
				if token.IsExported(name) {
					names = append(names, x.String())
				}
			case *ssa.Type:
				if !token.IsExported(name) {
					continue
				}
				for _, t := range []types.Type{x.Type(), types.NewPointer(x.Type())} {
					ms := l.prog.MethodSets.MethodSet(t)
					for i := 0; i < ms.Len(); i++ {
						if fn := l.prog.MethodValue(ms.At(i)); fn != nil && token.IsExported(fn.Name()) && fn.Synthetic == "" {
							names = append(names, fn.String())
						}
					}
				}
			}
		}
		sort.Strings(names)
		seen := map[string]bool{}
		for _, n := range names {
			if seen[n] {
				continue
			}
			seen[n] = true
			if _, ok := funcs[n]; ok {
				covered = append(covered, n)
			} else {
				uncovered = append(uncovered, n)
			}
		}
	}
	return
}
