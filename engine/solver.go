package main

// Solver back ends: long-lived processes fed SMT-LIB2 text.  Shared term
// definitions are emitted once (define-fun at base level); queries use push/pop.

import (
	"bufio"
	"fmt"
	"io"
	"os"
	"os/exec"
	"sort"
	"strconv"
	"strings"
	"sync"
	"time"
)

type Backend struct {
	name string
	argv []string
	// timeout option style
	z3style bool
}

var backendDefs = map[string]Backend{
	"z3":       {name: "z3", argv: []string{"z3", "-in"}, z3style: true},
	"z3new":    {name: "z3new", argv: []string{"z3-new", "-in"}, z3style: true},
	"cvc5":     {name: "cvc5", argv: []string{"cvc5", "--incremental", "--lang=smt2", "--produce-models"}},
	"cvc5int":  {name: "cvc5int", argv: []string{"cvc5", "--incremental", "--lang=smt2", "--produce-models", "--solve-bv-as-int=sum"}},
	"cvc5int1": {name: "cvc5int1", argv: []string{"cvc5", "--lang=smt2", "--produce-models", "--solve-bv-as-int=sum"}},
}

type SolverProc struct {
	be      Backend
	cmd     *exec.Cmd
	in      io.WriteCloser
	out     *bufio.Reader
	emitted map[int]bool
	declV   map[string]bool
	declF   map[string]bool
	alive   bool
	log     io.Writer
	mu      sync.Mutex
	// stats
	Queries int
	Time    time.Duration
}

func (s *SolverProc) start() error {
	s.cmd = exec.Command(s.be.argv[0], s.be.argv[1:]...)
	in, err := s.cmd.StdinPipe()
	if err != nil {
		return err
	}
	out, err := s.cmd.StdoutPipe()
	if err != nil {
		return err
	}
	s.cmd.Stderr = s.cmd.Stdout
	if err := s.cmd.Start(); err != nil {
		return err
	}
	s.in = in
	s.out = bufio.NewReaderSize(out, 1<<20)
	s.emitted = map[int]bool{}
	s.declV = map[string]bool{}
	s.declF = map[string]bool{}
	s.alive = true
	s.send("(set-option :print-success false)\n(set-option :produce-models true)\n(set-logic ALL)\n")
	return nil
}

func (s *SolverProc) kill() {
	if s.cmd != nil && s.cmd.Process != nil {
		s.cmd.Process.Kill()
		s.cmd.Wait()
	}
	s.alive = false
}

func (s *SolverProc) send(txt string) {
	if s.log != nil {
		io.WriteString(s.log, txt)
	}
	io.WriteString(s.in, txt)
}

// readSexp reads one complete line-oriented answer: either an atom line or a
// balanced s-expression possibly spanning lines.
func (s *SolverProc) readAnswer(deadline time.Duration) (string, error) {
	type res struct {
		s   string
		err error
	}
	ch := make(chan res, 1)
	go func() {
		var sb strings.Builder
		depth := 0
		started := false
		for {
			line, err := s.out.ReadString('\n')
			if err != nil {
				ch <- res{sb.String(), err}
				return
			}
			trim := strings.TrimSpace(line)
			if trim == "" && !started {
				continue
			}
			started = true
			sb.WriteString(line)
			inBar := false
			inStr := false
			for _, c := range line {
				switch {
				case inBar:
					if c == '|' {
						inBar = false
					}
				case inStr:
					if c == '"' {
						inStr = false
					}
				case c == '|':
					inBar = true
				case c == '"':
					inStr = true
				case c == '(':
					depth++
				case c == ')':
					depth--
				}
			}
			if depth <= 0 {
				ch <- res{sb.String(), nil}
				return
			}
		}
	}()
	select {
	case r := <-ch:
		return strings.TrimSpace(r.s), r.err
	case <-time.After(deadline):
		s.kill()
		<-ch
		return "", fmt.Errorf("timeout")
	}
}

type CheckResult struct {
	Status  string // sat | unsat | unknown
	Backend string
	Model   map[string]uint64 // values of requested terms, keyed by ref()
	Dur     time.Duration
	Note    string
}

// emitDefs sends declarations/definitions for everything reachable from ts.
func (s *SolverProc) emitDefs(tb *TB, ts []*Term) {
	var need []*Term
	seen := map[int]bool{}
	var rec func(t *Term)
	rec = func(t *Term) {
		if seen[t.id] || s.emitted[t.id] {
			return
		}
		seen[t.id] = true
		for _, a := range t.args {
			rec(a)
		}
		need = append(need, t)
	}
	for _, t := range ts {
		rec(t)
	}
	sort.Slice(need, func(i, j int) bool { return need[i].id < need[j].id })
	var sb strings.Builder
	for _, t := range need {
		s.emitted[t.id] = true
		switch t.op {
		case OpConst:
		case OpVar:
			if !s.declV[t.name] {
				s.declV[t.name] = true
				fmt.Fprintf(&sb, "(declare-const %s %s)\n", smtName(t.name), sortSMT(t.w))
			}
		default:
			if t.op == OpUF && !s.declF[t.name] {
				s.declF[t.name] = true
				d := tb.ufs[t.name]
				fmt.Fprintf(&sb, "(declare-fun %s (", smtName(t.name))
				for i, w := range d.argw {
					if i > 0 {
						sb.WriteString(" ")
					}
					sb.WriteString(sortSMT(w))
				}
				fmt.Fprintf(&sb, ") %s)\n", sortSMT(d.w))
			}
			fmt.Fprintf(&sb, "(define-fun t%d () %s %s)\n", t.id, sortSMT(t.w), t.def())
		}
	}
	if sb.Len() > 0 {
		s.send(sb.String())
	}
}

// Check asks whether the conjunction of assertions is satisfiable.
func (s *SolverProc) Check(tb *TB, assertions []*Term, want []*Term, timeout time.Duration) (res CheckResult) {
	s.mu.Lock()
	defer s.mu.Unlock()
	t0 := time.Now()
	res = CheckResult{Status: "unknown", Backend: s.be.name}
	defer func() {
		res.Dur = time.Since(t0)
		s.Queries++
		s.Time += res.Dur
	}()
	if !s.alive {
		if err := s.start(); err != nil {
			res.Note = "start: " + err.Error()
			return res
		}
	}
	all := append(append([]*Term{}, assertions...), want...)
	s.emitDefs(tb, all)
	var sb strings.Builder
	sb.WriteString("(push 1)\n")
	ms := int(timeout / time.Millisecond)
	if s.be.z3style {
		fmt.Fprintf(&sb, "(set-option :timeout %d)\n", ms)
	} else {
		fmt.Fprintf(&sb, "(set-option :tlimit-per %d)\n", ms)
	}
	for _, a := range assertions {
		fmt.Fprintf(&sb, "(assert %s)\n", a.ref())
	}
	sb.WriteString("(check-sat)\n")
	s.send(sb.String())
	ans, err := s.readAnswer(timeout + 5*time.Second)
	if err != nil {
		res.Note = "read: " + err.Error()
		s.kill()
		return res
	}
	switch {
	case ans == "sat":
		res.Status = "sat"
	case ans == "unsat":
		res.Status = "unsat"
	case ans == "unknown" || strings.HasPrefix(ans, "timeout"):
		res.Status = "unknown"
		res.Note = ans
	default:
		// error or unexpected output: inconclusive; restart the process to resynchronise
		res.Note = "unexpected: " + firstN(ans, 300)
		s.kill()
		return res
	}
	if res.Status == "sat" && len(want) > 0 {
		res.Model = map[string]uint64{}
		for i := 0; i < len(want); i += 200 {
			j := i + 200
			if j > len(want) {
				j = len(want)
			}
			var q strings.Builder
			q.WriteString("(get-value (")
			for _, t := range want[i:j] {
				q.WriteString(t.ref() + " ")
			}
			q.WriteString("))\n")
			s.send(q.String())
			ans, err := s.readAnswer(30 * time.Second)
			if err != nil || strings.Contains(ans, "(error") {
				res.Note = "get-value failed: " + firstN(ans, 200)
				res.Status = "unknown"
				s.kill()
				return res
			}
			vals := parseValues(ans)
			for k, t := range want[i:j] {
				if k < len(vals) {
					res.Model[t.ref()] = vals[k]
				}
			}
		}
	}
	s.send("(pop 1)\n")
	return res
}

func firstN(s string, n int) string {
	if len(s) > n {
		return s[:n]
	}
	return s
}

// parseValues extracts the value of each (name value) pair of a get-value
// answer, in order.
func parseValues(s string) []uint64 {
	toks := tokenize(s)
	// structure: ( ( name value ) ( name value ) ... ) where value may be an atom or (_ bvN w)
	var vals []uint64
	i := 0
	if i < len(toks) && toks[i] == "(" {
		i++
	}
	for i < len(toks) {
		if toks[i] != "(" {
			break
		}
		i++ // (
		// name: atom or parenthesised expression
		i = skipSexp(toks, i)
		// value
		if i < len(toks) && toks[i] == "(" {
			// (_ bvN w)
			j := skipSexp(toks, i)
			v := uint64(0)
			for _, tk := range toks[i:j] {
				if strings.HasPrefix(tk, "bv") {
					if n, err := strconv.ParseUint(tk[2:], 10, 64); err == nil {
						v = n
					}
				}
			}
			vals = append(vals, v)
			i = j
		} else if i < len(toks) {
			vals = append(vals, parseAtomVal(toks[i]))
			i++
		}
		if i < len(toks) && toks[i] == ")" {
			i++
		}
	}
	return vals
}

func parseAtomVal(a string) uint64 {
	switch {
	case a == "true":
		return 1
	case a == "false":
		return 0
	case strings.HasPrefix(a, "#x"):
		h := a[2:]
		if len(h) > 16 {
			h = h[len(h)-16:]
		}
		v, _ := strconv.ParseUint(h, 16, 64)
		return v
	case strings.HasPrefix(a, "#b"):
		bs := a[2:]
		if len(bs) > 64 {
			bs = bs[len(bs)-64:]
		}
		v, _ := strconv.ParseUint(bs, 2, 64)
		return v
	}
	v, _ := strconv.ParseUint(a, 10, 64)
	return v
}

func skipSexp(toks []string, i int) int {
	if i >= len(toks) {
		return i
	}
	if toks[i] != "(" {
		return i + 1
	}
	d := 0
	for i < len(toks) {
		if toks[i] == "(" {
			d++
		} else if toks[i] == ")" {
			d--
			if d == 0 {
				return i + 1
			}
		}
		i++
	}
	return i
}

func tokenize(s string) []string {
	var toks []string
	i := 0
	for i < len(s) {
		c := s[i]
		switch {
		case c == '(' || c == ')':
			toks = append(toks, string(c))
			i++
		case c == ' ' || c == '\n' || c == '\t' || c == '\r':
			i++
		case c == '|':
			j := i + 1
			for j < len(s) && s[j] != '|' {
				j++
			}
			toks = append(toks, s[i:min(j+1, len(s))])
			i = j + 1
		default:
			j := i
			for j < len(s) && !strings.ContainsRune("() \n\t\r", rune(s[j])) {
				j++
			}
			toks = append(toks, s[i:j])
			i = j
		}
	}
	return toks
}

// ---------- portfolio ----------

type Portfolio struct {
	procs    map[string]*SolverProc
	order    []string // preference order for proof obligations
	feas     []string // order for feasibility queries
	lastWin  string
	lastFeas string
	Stats    map[string]*BackendStat
	logDir   string
}

type BackendStat struct {
	Queries int     `json:"queries"`
	Sat     int     `json:"sat"`
	Unsat   int     `json:"unsat"`
	Unknown int     `json:"unknown"`
	TimeS   float64 `json:"time_s"`
}

func NewPortfolio() *Portfolio {
	p := &Portfolio{procs: map[string]*SolverProc{}, Stats: map[string]*BackendStat{}}
	for _, n := range []string{"z3", "cvc5int", "z3new", "cvc5"} {
		p.procs[n] = &SolverProc{be: backendDefs[n]}
		if d := os.Getenv("GOSYM_SMTLOG"); d != "" {
			f, _ := os.CreateTemp(d, n+"-*.smt2")
			p.procs[n].log = f
		}
		p.Stats[n] = &BackendStat{}
	}
	p.order = []string{"z3", "cvc5int", "z3new", "cvc5"}
	p.feas = []string{"cvc5", "z3", "cvc5int", "z3new"}
	return p
}

func (p *Portfolio) Close() {
	for _, s := range p.procs {
		if s.alive {
			s.send("(exit)\n")
			s.kill()
		}
	}
}

func (p *Portfolio) record(r CheckResult) {
	st := p.Stats[r.Backend]
	st.Queries++
	st.TimeS += r.Dur.Seconds()
	switch r.Status {
	case "sat":
		st.Sat++
	case "unsat":
		st.Unsat++
	default:
		st.Unknown++
	}
}

// Feasible: quick sat check for path conditions.  unknown = treated as feasible by callers.
func (p *Portfolio) Feasible(tb *TB, as []*Term, timeout time.Duration) CheckResult {
	var last CheckResult
	order := p.feas
	if p.lastFeas != "" && p.lastFeas != order[0] {
		order = []string{p.lastFeas}
		for _, n := range p.feas {
			if n != p.lastFeas {
				order = append(order, n)
			}
		}
	}
	for i, n := range order {
		to := timeout
		if i == 0 {
			to = timeout / 4
		}
		r := p.procs[n].Check(tb, as, nil, to)
		p.record(r)
		if r.Status != "unknown" {
			p.lastFeas = n
			return r
		}
		last = r
	}
	return last
}

// Prove: is the conjunction satisfiable? tries back ends in adaptive order with
// escalating time limits; returns the first definite answer.
func (p *Portfolio) Prove(tb *TB, as []*Term, want []*Term, timeout time.Duration) CheckResult {
	order := append([]string{}, p.order...)
	if p.lastWin != "" {
		o2 := []string{p.lastWin}
		for _, n := range order {
			if n != p.lastWin {
				o2 = append(o2, n)
			}
		}
		order = o2
	}
	// round 1: short limits, round 2: full limit
	rounds := []time.Duration{timeout / 8, timeout}
	if timeout <= 4*time.Second {
		rounds = []time.Duration{timeout}
	}
	var last CheckResult
	notes := []string{}
	for ri, to := range rounds {
		if ri > 0 && !deadline.IsZero() && time.Now().After(deadline) {
			break // out of budget: no long second round
		}
		for _, n := range order {
			r := p.procs[n].Check(tb, as, want, to)
			p.record(r)
			if r.Status != "unknown" {
				p.lastWin = n
				return r
			}
			notes = append(notes, fmt.Sprintf("%s@%v:%s", n, to, firstN(r.Note, 60)))
			last = r
		}
	}
	last.Note = strings.Join(notes, "; ")
	return last
}

// CrossCheck re-asks a second back end; returns its status.
func (p *Portfolio) CrossCheck(tb *TB, as []*Term, first string, timeout time.Duration) CheckResult {
	for _, n := range p.order {
		if n == first {
			continue
		}
		r := p.procs[n].Check(tb, as, nil, timeout)
		p.record(r)
		if r.Status != "unknown" {
			return r
		}
	}
	return CheckResult{Status: "unknown"}
}

// Model: a satisfying assignment for the requested terms, trying the fast feasibility back ends first.
func (p *Portfolio) Model(tb *TB, as []*Term, want []*Term, timeout time.Duration) CheckResult {
	order := p.feas
	if p.lastFeas != "" {
		order = append([]string{p.lastFeas}, order...)
	}
	var last CheckResult
	for _, n := range order {
		r := p.procs[n].Check(tb, as, want, timeout/2)
		p.record(r)
		if r.Status != "unknown" {
			return r
		}
		last = r
	}
	return last
}
