package main

import (
	"crypto/sha256"
	"encoding/json"
	"flag"
	"fmt"
	"go/ast"
	"os"
	"path/filepath"
	"regexp"
	"sort"
	"strconv"
	"strings"
	"sync"
	"time"

	"golang.org/x/tools/go/packages"
	"golang.org/x/tools/go/ssa"
	"golang.org/x/tools/go/ssa/ssautil"
)

type Loaded struct {
	prog     *ssa.Program
	pkgs     []*packages.Package
	spkgs    []*ssa.Package
	overlay  map[string][]byte
	specs    []*HarnessSpec
	srcFiles map[string]string // file -> sha256
}

var deadline time.Time

var (
	repoDir    = "/repo"
	harnessDir = "/verif/harness"
)

// overlayFor maps harness sources into the package directories of /repo.
func overlayFor(sub string, native bool) (map[string][]byte, map[string]string, error) {
	dst := map[string]string{"otp": repoDir, "api": filepath.Join(repoDir, "internal/app/api"), "wasm": filepath.Join(repoDir, "wasm")}[sub]
	ov := map[string][]byte{}
	real := map[string]string{}
	files, err := filepath.Glob(filepath.Join(harnessDir, sub, "*.go"))
	if err != nil {
		return nil, nil, err
	}
	for _, f := range files {
		base := filepath.Base(f)
		if native && base == "rt_sym.go" || !native && strings.HasPrefix(base, "rt_native") {
			continue
		}
		b, err := os.ReadFile(f)
		if err != nil {
			return nil, nil, err
		}
		// native runtime parts that touch identifiers of the tree under test are optional:
		// "//verif:requires x" / "//verif:unless x" on the first line select them by whether the
		// package declares x (so that a refactoring which removes a pool keeps the replay compiling)
		if first, _, _ := strings.Cut(string(b), "\n"); strings.HasPrefix(first, "//verif:requires ") || strings.HasPrefix(first, "//verif:unless ") {
			want := strings.HasPrefix(first, "//verif:requires ")
			ids := strings.Split(strings.TrimSpace(first[strings.Index(first, " ")+1:]), ",")
			ok := true
			for _, id := range ids {
				if declaresIdent(dst, strings.TrimSpace(id)) != want {
					ok = false
				}
			}
			if !ok {
				continue
			}
		}
		p := filepath.Join(dst, "zz_verif_"+base)
		if native && strings.HasSuffix(base, ".go") && base != "rt_native.go" {
			// harness files are compiled as part of the test binary
		}
		ov[p] = b
		real[p] = f
	}
	return ov, real, nil
}

// declaresIdent: does a non-test Go file of the package directory declare the package-level
// identifier (var/const/func/type, also inside a parenthesised var block)?
func declaresIdent(dir, id string) bool {
	files, _ := filepath.Glob(filepath.Join(dir, "*.go"))
	re := regexp.MustCompile(`(?m)^(?:var\s+|const\s+|type\s+|func\s+|\t)` + regexp.QuoteMeta(id) + `\b`)
	for _, f := range files {
		if strings.HasSuffix(f, "_test.go") {
			continue
		}
		b, err := os.ReadFile(f)
		if err == nil && re.Match(b) {
			return true
		}
	}
	return false
}

func load(subs []string, js bool) (*Loaded, error) {
	ov := map[string][]byte{}
	for _, s := range subs {
		o, _, err := overlayFor(s, false)
		if err != nil {
			return nil, err
		}
		for k, v := range o {
			ov[k] = v
		}
	}
	env := append(os.Environ(), "GOFLAGS=", "GOPROXY=off")
	if js {
		env = append(env, "GOOS=js", "GOARCH=wasm")
	}
	cfg := &packages.Config{Mode: packages.LoadAllSyntax, Dir: repoDir, Env: env, Overlay: ov}
	var patterns []string
	for _, s := range subs {
		patterns = append(patterns, map[string]string{"otp": ".", "api": "./internal/app/api", "wasm": "./wasm"}[s])
	}
	pkgs, err := packages.Load(cfg, patterns...)
	if err != nil {
		return nil, err
	}
	var errs []string
	packages.Visit(pkgs, nil, func(p *packages.Package) {
		for _, e := range p.Errors {
			errs = append(errs, e.Error())
		}
	})
	if len(errs) > 0 {
		return nil, fmt.Errorf("load errors:\n%s", strings.Join(errs, "\n"))
	}
	prog, spkgs := ssautil.AllPackages(pkgs, ssa.InstantiateGenerics)
	prog.Build()
	l := &Loaded{prog: prog, pkgs: pkgs, spkgs: spkgs, overlay: ov, srcFiles: map[string]string{}}
	for i, p := range pkgs {
		for j, f := range p.Syntax {
			fname := p.CompiledGoFiles[j]
			if b, ok := ov[fname]; ok {
				l.srcFiles[fname] = fmt.Sprintf("%x", sha256.Sum256(b))
			} else if b, err := os.ReadFile(fname); err == nil {
				l.srcFiles[strings.TrimPrefix(fname, repoDir+"/")] = fmt.Sprintf("%x", sha256.Sum256(b))
			}
			sub := "otp"
			if strings.HasSuffix(p.PkgPath, "/internal/app/api") {
				sub = "api"
			} else if strings.HasSuffix(p.PkgPath, "/wasm") {
				sub = "wasm"
			}
			l.parseDirectives(f, spkgs[i], sub, fname)
		}
	}
	return l, nil
}

var dirRe = regexp.MustCompile(`^//verif:(\w+)\s*(.*)$`)

func (l *Loaded) parseDirectives(f *ast.File, sp *ssa.Package, sub, fname string) {
	for _, d := range f.Decls {
		fd, ok := d.(*ast.FuncDecl)
		if !ok || fd.Doc == nil || fd.Recv != nil {
			continue
		}
		var hs *HarnessSpec
		for _, c := range fd.Doc.List {
			m := dirRe.FindStringSubmatch(strings.TrimSpace(c.Text))
			if m == nil {
				continue
			}
			kv := map[string]string{}
			fields := strings.Fields(m[2])
			for _, fl := range fields {
				if i := strings.Index(fl, "="); i > 0 {
					kv[fl[:i]] = fl[i+1:]
				}
			}
			switch m[1] {
			case "harness":
				hs = &HarnessSpec{Prop: kv["prop"], Name: kv["name"], Fn: sp.Func(fd.Name.Name), Pkg: sub,
					Cases: map[string][]CaseDim{}, Replace: map[string]string{}, Opts: map[string]string{}, File: fname}
				if hs.Name == "" {
					hs.Name = fd.Name.Name
				}
			case "cases":
				if hs == nil || len(fields) == 0 {
					continue
				}
				tier := fields[0]
				var dims []CaseDim
				for _, fl := range fields[1:] {
					i := strings.Index(fl, "=")
					if i < 0 {
						continue
					}
					dims = append(dims, CaseDim{Name: fl[:i], Vals: parseVals(fl[i+1:])})
				}
				hs.Cases[tier] = dims
			case "replace":
				if hs != nil {
					for k, v := range kv {
						hs.Replace[k] = v
					}
				}
			case "opt":
				if hs != nil {
					for k, v := range kv {
						hs.Opts[k] = v
					}
				}
			}
		}
		if hs != nil && hs.Fn != nil {
			l.specs = append(l.specs, hs)
		}
	}
}

func parseVals(s string) []int64 {
	var out []int64
	for _, part := range strings.Split(s, ",") {
		if i := strings.Index(part, ".."); i >= 0 {
			lo, _ := strconv.ParseInt(part[:i], 10, 64)
			hi, _ := strconv.ParseInt(part[i+2:], 10, 64)
			for v := lo; v <= hi; v++ {
				out = append(out, v)
			}
		} else if part != "" {
			v, _ := strconv.ParseInt(part, 10, 64)
			out = append(out, v)
		}
	}
	return out
}

func product(dims []CaseDim) []map[string]int64 {
	res := []map[string]int64{{}}
	for _, d := range dims {
		var nxt []map[string]int64
		for _, m := range res {
			for _, v := range d.Vals {
				c := map[string]int64{}
				for k, x := range m {
					c[k] = x
				}
				c[d.Name] = v
				nxt = append(nxt, c)
			}
		}
		res = nxt
	}
	return res
}

func optInt(hs *HarnessSpec, tier, key string, def int) int {
	if v, ok := hs.Opts[key+"_"+tier]; ok {
		n, _ := strconv.Atoi(v)
		return n
	}
	if v, ok := hs.Opts[key]; ok {
		n, _ := strconv.Atoi(v)
		return n
	}
	return def
}

func main() {
	if len(os.Args) < 2 {
		fmt.Println("usage: gosym check|list|concrete ...")
		os.Exit(2)
	}
	switch os.Args[1] {
	case "check":
		os.Exit(cmdCheck(os.Args[2:]))
	case "selftest":
		os.Exit(cmdSelftest())
	case "replay":
		os.Exit(cmdReplay(os.Args[2]))
	case "list":
		l, err := load([]string{"otp"}, false)
		if err != nil {
			fmt.Println(err)
			os.Exit(2)
		}
		for _, s := range l.specs {
			fmt.Println(s.Prop, s.Name, s.Fn, s.Cases)
		}
	default:
		fmt.Println("unknown command")
		os.Exit(2)
	}
}

type jobResult struct {
	spec *HarnessSpec
	res  *CaseResult
}

func cmdCheck(args []string) int {
	fs := flag.NewFlagSet("check", flag.ExitOnError)
	prop := fs.String("prop", "", "property id")
	tier := fs.String("tier", "quick", "quick|thorough")
	only := fs.String("only", "", "run only the harness with this name")
	workers := fs.Int("j", 14, "parallel case workers")
	out := fs.String("out", "", "evidence file")
	trace := fs.Bool("trace", false, "trace instructions")
	verbose := fs.Bool("v", false, "verbose")
	noReplay := fs.Bool("no-replay", false, "do not replay models natively")
	caseFilter := fs.String("case", "", "restrict cases, e.g. digits=10,alg=0")
	budget := fs.Int("budget", 0, "wall-clock budget in seconds (0 = 780 quick / 6000 thorough); work not done by then is reported as not decided")
	fs.StringVar(&repoDir, "repo", "/repo", "repository")
	fs.StringVar(&harnessDir, "harness", "/verif/harness", "harness sources")
	fs.Parse(args)
	t0 := time.Now()
	seed := 0
	if s := os.Getenv("VERIF_SEED"); s != "" {
		seed, _ = strconv.Atoi(s)
	}

	subsNeeded := propPackages(*prop)
	var all []*Loaded
	for _, grp := range subsNeeded {
		l, err := load(grp.subs, grp.js)
		if err != nil {
			fmt.Printf("ENGINE-ERROR property=%s load failed: %v\n", *prop, err)
			writeEngineErrorEvidence(*out, *prop, *tier, seed, "load failed: "+err.Error(), time.Since(t0))
			return 2
		}
		all = append(all, l)
	}
	type job struct {
		l     *Loaded
		spec  *HarnessSpec
		cases map[string]int64
	}
	var jobs []job
	filter := map[string]int64{}
	for _, kv := range strings.Split(*caseFilter, ",") {
		if i := strings.Index(kv, "="); i > 0 {
			v, _ := strconv.ParseInt(kv[i+1:], 10, 64)
			filter[kv[:i]] = v
		}
	}
	for _, l := range all {
		for _, s := range l.specs {
			if s.Prop != *prop || (*only != "" && s.Name != *only) {
				continue
			}
			dims, ok := s.Cases[*tier]
			if !ok {
				dims = s.Cases["quick"]
				if *tier == "quick" && s.Opts["tier"] == "thorough" {
					continue
				}
			}
			if s.Opts["tier"] == "thorough" && *tier != "thorough" {
				continue
			}
			for _, c := range product(dims) {
				skip := false
				for k, v := range filter {
					if cv, ok := c[k]; ok && cv != v {
						skip = true
					}
				}
				if !skip {
					jobs = append(jobs, job{l, s, c})
				}
			}
		}
	}
	if len(jobs) == 0 {
		fmt.Printf("ENGINE-ERROR property=%s no harness found\n", *prop)
		writeEngineErrorEvidence(*out, *prop, *tier, seed, "no harness", time.Since(t0))
		return 2
	}
	// seed only permutes job order
	if seed != 0 {
		sort.SliceStable(jobs, func(i, j int) bool {
			return (uint64(i)*2654435761+uint64(seed))%1000003 < (uint64(j)*2654435761+uint64(seed))%1000003
		})
	}
	if *budget == 0 {
		*budget = map[string]int{"quick": 780, "thorough": 6000}[*tier]
	}
	deadline = t0.Add(time.Duration(*budget) * time.Second)
	results := make([]jobResult, len(jobs))
	var wg sync.WaitGroup
	sem := make(chan struct{}, *workers)
	for i, j := range jobs {
		wg.Add(1)
		go func(i int, j job) {
			defer wg.Done()
			sem <- struct{}{}
			defer func() { <-sem }()
			cfg := Config{
				Unwind:        optInt(j.spec, *tier, "unwind", 2000),
				MaxSteps:      optInt(j.spec, *tier, "steps", 2000000),
				MaxConcretize: optInt(j.spec, *tier, "maxlen", 64),
				FeasTimeout:   time.Duration(optInt(j.spec, *tier, "feas_timeout", 10)) * time.Second,
				ProveTimeout:  time.Duration(optInt(j.spec, *tier, "prove_timeout", map[string]int{"quick": 30, "thorough": 120}[*tier])) * time.Second,
				Trace:         *trace,
				HMACFresh:     j.spec.Opts["hmac"] == "fresh",
			}
			r := exploreCase(j.l.prog, j.spec, j.cases, cfg, optInt(j.spec, *tier, "maxpaths", 20000), *tier == "thorough")
			results[i] = jobResult{j.spec, r}
			if *verbose {
				fmt.Fprintf(os.Stderr, "[%s %v] paths=%d complete=%d oblig=%d proved=%d folded=%d viol=%d undecided=%d unknown=%d %.1fs\n",
					j.spec.Name, j.cases, r.NPaths, r.Complete, r.NOblig, r.Proved, r.Folded, len(r.Violations), len(r.Undecided), len(r.Unknown), r.WallS)
				for _, u := range r.Undecided {
					fmt.Fprintf(os.Stderr, "    undecided: %s\n", u)
				}
				for _, u := range r.Unknown {
					fmt.Fprintf(os.Stderr, "    unknown: %s\n", u)
				}
				for _, v := range r.Violations {
					fmt.Fprintf(os.Stderr, "    VIOL %s path=%d %s model=%s\n", v.Name, v.Path, v.Detail, shortModel(v.Model))
				}
				for _, ob := range r.Obligations {
					if ob.DurS > 1.0 {
						fmt.Fprintf(os.Stderr, "    slow: %s path=%d %s %s %.1fs nodes=%d\n", ob.Name, ob.Path, ob.Status, ob.Backend, ob.DurS, ob.Size)
					}
				}
				for _, ps := range r.PanicsSeen {
					fmt.Fprintf(os.Stderr, "    caught panic: %s\n", ps)
				}
				if r.EngineError != "" {
					fmt.Fprintf(os.Stderr, "    ENGINE: %s\n", r.EngineError)
				}
			}
		}(i, j)
	}
	wg.Wait()
	return report(*prop, *tier, seed, *out, results, all, time.Since(t0), !*noReplay)
}

type loadGroup struct {
	subs []string
	js   bool
}

func propPackages(prop string) []loadGroup {
	switch prop {
	case "C18", "C19":
		return []loadGroup{{[]string{"otp", "api"}, false}}
	case "C20":
		return []loadGroup{{[]string{"otp", "wasm"}, true}}
	case "C09":
		return []loadGroup{{[]string{"otp"}, false}, {[]string{"otp", "wasm"}, true}}
	}
	return []loadGroup{{[]string{"otp"}, false}}
}

func writeEngineErrorEvidence(out, prop, tier string, seed int, msg string, d time.Duration) {
	if out == "" {
		return
	}
	ev := map[string]any{
		"property_id": prop, "tier": tier, "seed": seed, "level": "other",
		"coverage": map[string]any{"explanation": "ENGINE ERROR, nothing was decided: " + msg},
		"wall_s":   d.Seconds(), "violations": 0,
	}
	b, _ := json.MarshalIndent(ev, "", " ")
	os.MkdirAll(filepath.Dir(out), 0o755)
	os.WriteFile(out, b, 0o644)
}

func shortModel(m map[string]uint64) string {
	var ks []string
	for k := range m {
		ks = append(ks, k)
	}
	sort.Strings(ks)
	var sb strings.Builder
	n := 0
	for _, k := range ks {
		if m[k] == 0 && len(ks) > 12 {
			continue
		}
		if n > 10 {
			sb.WriteString(" ...")
			break
		}
		fmt.Fprintf(&sb, " %s=%d", k, m[k])
		n++
	}
	return "{" + sb.String() + " } (zero-valued variables omitted)"
}

func cmdSelftest() int {
	l, err := load([]string{"otp"}, false)
	if err != nil {
		fmt.Println("ENGINE-ERROR selftest load:", err)
		return 2
	}
	for _, s := range l.specs {
		if s.Prop != "SELF" {
			continue
		}
		e := newExec(l.prog, Config{Unwind: 100000, MaxSteps: 50000000, MaxConcretize: 1 << 20, Cases: map[string]int64{"x": 0}, Concrete: map[string]uint64{}, RealHMAC: true}, nil)
		pr := e.runPath(s.Fn, nil, 0)
		bad := 0
		for _, ob := range e.obligs {
			if ob.Status != "folded" {
				bad++
				fmt.Printf("selftest: assertion %s %s %s\n", ob.Name, ob.Status, ob.Note)
			}
		}
		fmt.Printf("selftest %s: outcome=%s %s assertions=%d failed=%d ssa_instructions=%d\n", s.Name, pr.Outcome, firstN(pr.Msg, 600), len(e.obligs), bad, pr.Steps)
		if pr.Outcome != "complete" || bad > 0 {
			return 2
		}
	}
	return 0
}
