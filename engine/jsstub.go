package main

// Stubs for syscall/js (js/wasm build configuration, property C20 and the wasm part of C09).
// A js.Value is represented by its real struct type with the ref field holding a handle into
// an engine-side table: JS type tag (concrete or symbolic), string payload, numeric payload, or
// the Go value passed to js.ValueOf.  Number -> int conversion inside syscall/js (truncation
// of fractions) is outside the model: (Value).Int() returns the numeric payload.

import (
	"fmt"
	"go/types"

	"golang.org/x/tools/go/ssa"
)

type jsVal struct {
	typ  *Term // js.Type as 64-bit term (0 undefined,1 null,2 boolean,3 number,4 string,5 symbol,6 object,7 function)
	str  *StrV
	num  *Term
	goV  Value  // for js.ValueOf results
	what string // "arg" | "valueof" | "global" | "func"
}

func registerJSIntrinsics() {
	intrinsics["(syscall/js.Value).Type"] = func(e *Exec, a []Value, s *ssa.CallCommon) Value {
		return e.jsOf(a[0]).typ
	}
	intrinsics["(syscall/js.Value).String"] = func(e *Exec, a []Value, s *ssa.CallCommon) Value {
		v := e.jsOf(a[0])
		if v.str != nil {
			return v.str
		}
		return e.constString("<js value>")
	}
	intrinsics["(syscall/js.Value).Int"] = func(e *Exec, a []Value, s *ssa.CallCommon) Value {
		v := e.jsOf(a[0])
		notNum := e.tb.Ne(v.typ, e.c64(3))
		if !notNum.IsFalse() && e.branch(notNum, "js.Value.Int-on-non-number") {
			panic(&goPanic{val: e.runtimeError("syscall/js: call of Value.Int on non-number"), site: e.site()})
		}
		if v.num == nil {
			return e.c64(0)
		}
		return v.num
	}
	intrinsics["syscall/js.ValueOf"] = func(e *Exec, a []Value, s *ssa.CallCommon) Value {
		iv := a[0].(*IfaceV)
		// ValueOf(js.Value) is the identity
		if iv.typ != nil && iv.typ.String() == "syscall/js.Value" {
			return iv.v
		}
		jv := &jsVal{what: "valueof", goV: iv}
		switch x := iv.v.(type) {
		case *StrV:
			jv.typ, jv.str = e.c64(4), x
		case *Term:
			if x.w == 0 {
				jv.typ = e.c64(2)
				jv.num = e.tb.B2BV(x, 64)
			} else {
				jv.typ, jv.num = e.c64(3), e.tb.Resize(x, 64, true)
			}
		default:
			jv.typ = e.c64(6)
		}
		return e.newJS(jv)
	}
	intrinsics["syscall/js.Global"] = func(e *Exec, a []Value, s *ssa.CallCommon) Value {
		return e.newJS(&jsVal{what: "global", typ: e.c64(6)})
	}
	intrinsics["syscall/js.FuncOf"] = func(e *Exec, a []Value, s *ssa.CallCommon) Value {
		// js.Func{Value: v, id: ...}: build the struct of the real type
		ft := e.prog.ImportedPackage("syscall/js").Type("Func").Type()
		st := e.zero(ft).(*StructV)
		st.F[0] = e.newJS(&jsVal{what: "func", typ: e.c64(7), goV: a[0]})
		return st
	}
	intrinsics["(syscall/js.Value).Set"] = func(e *Exec, a []Value, s *ssa.CallCommon) Value {
		name, _ := e.concreteString(a[1].(*StrV))
		var fn Value
		if iv, ok := a[2].(*IfaceV); ok {
			if st, ok := iv.v.(*StructV); ok && len(st.F) > 0 {
				if jv := e.jsOfOK(st.F[0]); jv != nil {
					fn = jv.goV
				}
			}
		}
		e.jsGlobals = append(e.jsGlobals, jsReg{name: name, fn: fn})
		return &TupleV{}
	}
}

type jsReg struct {
	name string
	fn   Value
}

func (e *Exec) jsType() types.Type {
	p := e.prog.ImportedPackage("syscall/js")
	if p == nil {
		panic(e.unsupported("syscall/js not loaded (native build configuration)"))
	}
	return p.Type("Value").Type()
}

func (e *Exec) newJS(v *jsVal) Value {
	e.jsVals = append(e.jsVals, v)
	st := e.zero(e.jsType()).(*StructV)
	for i := range st.F {
		if t, ok := st.F[i].(*Term); ok && t.w == 64 {
			st.F[i] = e.tb.Const(64, uint64(len(e.jsVals))) // handle (1-based)
		}
	}
	return st
}

func (e *Exec) jsOfOK(v Value) *jsVal {
	st, ok := v.(*StructV)
	if !ok {
		return nil
	}
	for _, f := range st.F {
		if t, ok := f.(*Term); ok && t.w == 64 && t.IsConst() {
			id := int(t.val)
			if id >= 1 && id <= len(e.jsVals) {
				return e.jsVals[id-1]
			}
			return &jsVal{what: "zero", typ: e.c64(0)} // js.Value{} is undefined
		}
	}
	return nil
}

func (e *Exec) jsOf(v Value) *jsVal {
	jv := e.jsOfOK(v)
	if jv == nil {
		panic(e.internal(fmt.Sprintf("not a js.Value: %T", v)))
	}
	return jv
}
