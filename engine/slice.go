package main

// Independence slicing of path conditions (cone of influence): only the
// conjuncts that share variables or uninterpreted function symbols, directly or
// transitively, with the query are sent to the solver.  Sound for unsat answers
// unconditionally; sat answers are re-confirmed on the full path condition when
// a model is needed.

func (e *Exec) symsOf(t *Term) []string {
	if s, ok := e.symCache[t.id]; ok {
		return s
	}
	set := map[string]bool{}
	seen := map[int]bool{}
	var rec func(t *Term)
	rec = func(t *Term) {
		if seen[t.id] {
			return
		}
		seen[t.id] = true
		switch t.op {
		case OpVar:
			set[t.name] = true
		case OpUF:
			// all applications of one hash / contract function are coupled by congruence;
			// the per-byte symbols of one function are treated as one symbol
			set["uf:"+ufFamily(t.name)] = true
		}
		for _, a := range t.args {
			rec(a)
		}
	}
	rec(t)
	out := make([]string, 0, len(set))
	for k := range set {
		out = append(out, k)
	}
	e.symCache[t.id] = out
	return out
}

func ufFamily(name string) string {
	// strip the trailing _b<i> byte selector
	for i := len(name) - 1; i > 0; i-- {
		if name[i] == '_' {
			if i+1 < len(name) && name[i+1] == 'b' {
				return name[:i]
			}
			break
		}
	}
	return name
}

// slicePC returns the conjuncts of the path condition relevant to the goals.
func (e *Exec) slicePC(goals ...*Term) []*Term { return e.slicePCKinds("abp", goals...) }

// slicePCKinds: as slicePC but only over conjuncts of the given kinds.
func (e *Exec) slicePCKinds(kinds string, goals ...*Term) []*Term {
	if len(e.pc) == 0 {
		return nil
	}
	allowed := func(i int) bool {
		for j := 0; j < len(kinds); j++ {
			if kinds[j] == e.pcKind[i] {
				return true
			}
		}
		return false
	}
	reach := map[string]bool{}
	for _, g := range goals {
		for _, s := range e.symsOf(g) {
			reach[s] = true
		}
	}
	used := make([]bool, len(e.pc))
	changed := true
	for changed {
		changed = false
		for i, p := range e.pc {
			if used[i] || !allowed(i) {
				continue
			}
			syms := e.symsOf(p)
			hit := len(syms) == 0
			for _, s := range syms {
				if reach[s] {
					hit = true
					break
				}
			}
			if hit {
				used[i] = true
				changed = true
				for _, s := range syms {
					reach[s] = true
				}
			}
		}
	}
	var out []*Term
	for i, p := range e.pc {
		if used[i] {
			out = append(out, p)
		}
	}
	return out
}

// sliceDirect: assumption conjuncts (transitively) plus those branch / proved
// conjuncts whose symbols all occur in the goal itself.
func (e *Exec) sliceDirect(goal *Term) []*Term {
	out := e.slicePCKinds("a", goal)
	gs := map[string]bool{}
	for _, s := range e.symsOf(goal) {
		gs[s] = true
	}
	have := map[int]bool{}
	for _, t := range out {
		have[t.id] = true
	}
	for i, p := range e.pc {
		if e.pcKind[i] == 'a' || have[p.id] {
			continue
		}
		syms := e.symsOf(p)
		ok := len(syms) > 0
		for _, s := range syms {
			if !gs[s] {
				ok = false
				break
			}
		}
		if ok {
			out = append(out, p)
		}
	}
	return out
}
