package main

// Native replay: models (violations, reachability witnesses) are run as an
// ordinary `go test` against /repo's working tree with the harness overlay.

import (
	"crypto/sha256"
	"encoding/json"
	"fmt"
	"os"
	"os/exec"
	"path/filepath"
	"sort"
	"strings"
	"time"
)

type nativeJob struct {
	ID      string            `json:"id"`
	Harness string            `json:"harness"`
	Cases   map[string]int64  `json:"cases"`
	Vars    map[string]uint64 `json:"vars"`
	Digests [][]int           `json:"digests"`
}

type nativeResult struct {
	ID           string            `json:"id"`
	Failed       []string          `json:"failed"`
	AssumeFailed bool              `json:"assume_failed"`
	Panic        string            `json:"panic"`
	Observes     map[string]string `json:"observes"`
	Asserts      int               `json:"asserts"`
	AssumeSite   string            `json:"assume_site"`
	Timeout      bool              `json:"timeout"`
}

var subDir = map[string]string{"otp": "", "api": "internal/app/api", "wasm": "wasm"}
var subPkgName = map[string]string{"otp": "otp", "api": "api", "wasm": "main"}

func replayTestSource(sub string, harnessFns []string) string {
	var sb strings.Builder
	fmt.Fprintf(&sb, "package %s\n\nimport (\n\t\"encoding/json\"\n\t\"os\"\n\t\"testing\"\n\t\"time\"\n)\n\n", subPkgName[sub])
	sb.WriteString("func TestVerifReplay(t *testing.T) {\n\ttable := map[string]func(){\n")
	sort.Strings(harnessFns)
	for _, f := range harnessFns {
		fmt.Fprintf(&sb, "\t\t%q: %s,\n", f, f)
	}
	sb.WriteString("\t}\n")
	sb.WriteString(`	in, err := os.ReadFile(os.Getenv("VERIF_REPLAY_IN"))
	if err != nil {
		t.Fatal(err)
	}
	var jobs []verifJob
	if err := json.Unmarshal(in, &jobs); err != nil {
		t.Fatal(err)
	}
	var out []*verifJobResult
	for i := range jobs {
		// a job that does not return within the deadline (a replayed model of unbounded work) is
		// recorded as timed out; the spinning goroutine still owns the runner's state, so the
		// remaining jobs are left to a fresh process
		done := make(chan *verifJobResult, 1)
		go func(j *verifJob) { done <- verifRunJob(j, table) }(&jobs[i])
		var r *verifJobResult
		select {
		case r = <-done:
		case <-time.After(60 * time.Second):
			r = &verifJobResult{ID: jobs[i].ID, Timeout: true, Observes: map[string]string{}}
		}
		out = append(out, r)
		if len(r.Failed) > 0 || r.Panic != "" || r.Timeout {
			t.Logf("job %s: failed assertions %v panic %q timeout %v", r.ID, r.Failed, r.Panic, r.Timeout)
		}
		if r.Timeout {
			break
		}
	}
	b, _ := json.Marshal(out)
	if err := os.WriteFile(os.Getenv("VERIF_REPLAY_OUT"), b, 0o644); err != nil {
		t.Fatal(err)
	}
}
`)
	return sb.String()
}

// runNative executes jobs for one package; dir receives the generated files.
func runNative(sub string, jobs []nativeJob, harnessFns []string, dir string) ([]nativeResult, string, error) {
	var all []nativeResult
	var logs string
	for round := 0; round < 8 && len(jobs) > 0; round++ {
		res, log, err := runNativeOnce(sub, jobs, harnessFns, dir)
		logs += log
		if err != nil {
			if len(all) > 0 {
				return all, logs, nil
			}
			return nil, logs, err
		}
		all = append(all, res...)
		if len(res) == 0 || !res[len(res)-1].Timeout || len(res) >= len(jobs) {
			break
		}
		jobs = jobs[len(res):]
	}
	return all, logs, nil
}

func runNativeOnce(sub string, jobs []nativeJob, harnessFns []string, dir string) ([]nativeResult, string, error) {
	os.MkdirAll(dir, 0o755)
	_, real, err := overlayFor(sub, true)
	if err != nil {
		return nil, "", err
	}
	testFile := filepath.Join(dir, "replay_"+sub+"_test.go")
	if err := os.WriteFile(testFile, []byte(replayTestSource(sub, harnessFns)), 0o644); err != nil {
		return nil, "", err
	}
	repl := map[string]string{}
	for virt, r := range real {
		repl[virt] = r
	}
	repl[filepath.Join(repoDir, subDir[sub], "zz_verif_replay_test.go")] = testFile
	ovb, _ := json.MarshalIndent(map[string]any{"Replace": repl}, "", " ")
	ovFile := filepath.Join(dir, "overlay_"+sub+".json")
	os.WriteFile(ovFile, ovb, 0o644)
	jb, _ := json.MarshalIndent(jobs, "", " ")
	inFile := filepath.Join(dir, "jobs_"+sub+".json")
	os.WriteFile(inFile, jb, 0o644)
	outFile := filepath.Join(dir, "results_"+sub+".json")
	os.Remove(outFile)
	pkgDir := filepath.Join(repoDir, subDir[sub])
	cmd := exec.Command("go", "test", "-vet=off", "-count=1", "-timeout", "20m", "-run", "^TestVerifReplay$", "-overlay", ovFile, ".")
	cmd.Dir = pkgDir
	cmd.Env = append(os.Environ(), "GOFLAGS=", "GOPROXY=off", "VERIF_REPLAY_IN="+inFile, "VERIF_REPLAY_OUT="+outFile)
	if sub == "wasm" {
		// the binding only builds for js/wasm: run the test binary under Node with Go's own wrapper;
		// the library package gets its harness overlay too (contract stubs live there)
		_, realOtp, _ := overlayFor("otp", true)
		for virt, r := range realOtp {
			repl[virt] = r
		}
		ovb, _ := json.MarshalIndent(map[string]any{"Replace": repl}, "", " ")
		os.WriteFile(ovFile, ovb, 0o644)
		gr := exec.Command("go", "env", "GOROOT")
		gr.Dir = pkgDir
		gr.Env = append(os.Environ(), "GOFLAGS=", "GOPROXY=off")
		grb, _ := gr.Output()
		wrapper := "/verif/tools/go_js_wasm_exec"
		cmd = exec.Command("go", "test", "-vet=off", "-count=1", "-timeout", "20m", "-exec", wrapper, "-run", "^TestVerifReplay$", "-overlay", ovFile, ".")
		cmd.Dir = pkgDir
		cmd.Env = append(os.Environ(), "GOFLAGS=", "GOPROXY=off", "GOOS=js", "GOARCH=wasm", "VERIF_REPLAY_IN="+inFile, "VERIF_REPLAY_OUT="+outFile,
			"VERIF_WASM_GOROOT="+strings.TrimSpace(string(grb)))
	}
	outb, err := cmd.CombinedOutput()
	log := string(outb)
	rb, rerr := os.ReadFile(outFile)
	if rerr != nil {
		return nil, log, fmt.Errorf("native replay produced no results (%v): %s", err, firstN(log, 1500))
	}
	var res []nativeResult
	if jerr := json.Unmarshal(rb, &res); jerr != nil {
		return nil, log, jerr
	}
	return res, log, nil
}

func casesKey(c map[string]int64) string {
	var ks []string
	for k, v := range c {
		ks = append(ks, fmt.Sprintf("%s=%d", k, v))
	}
	sort.Strings(ks)
	return strings.Join(ks, ",")
}

// concreteRun executes the harness in the executor with every nondet value fixed.
func concreteRun(l *Loaded, hs *HarnessSpec, cases map[string]int64, vars map[string]uint64, digests [][]int) (obs map[string]string, failed []string, outcome string) {
	cfg := Config{Unwind: 100000, MaxSteps: 5000000, MaxConcretize: 1 << 20, Cases: cases, Concrete: vars, ConcDigests: digests, RealHMAC: true,
		FeasTimeout: time.Second, ProveTimeout: time.Second}
	if cfg.Concrete == nil {
		cfg.Concrete = map[string]uint64{}
	}
	e := newExec(l.prog, cfg, nil)
	e.harnessPkg = hs.Fn.Pkg
	// replaced functions are NOT replaced in concrete mode: the native run uses the real ones too
	pr := e.runPath(hs.Fn, nil, 0)
	obs = map[string]string{}
	for _, o := range e.observes {
		obs[o.Name] = e.renderValue(o.Val, map[string]uint64{}, nil)
	}
	for _, ob := range e.obligs {
		if ob.Status == "violated" {
			failed = append(failed, ob.Name)
		}
	}
	outcome = pr.Outcome
	if pr.Outcome != "complete" {
		outcome += ": " + firstN(pr.Msg, 300)
	}
	return
}

func replayAll(prop string, results []jobResult, viols []*Violation, loaded []*Loaded) (int, []string) {
	var notes []string
	type wit struct {
		jr  jobResult
		job nativeJob
	}
	bySub := map[string][]nativeJob{}
	fnsBySub := map[string]map[string]bool{}
	specOf := map[string]*HarnessSpec{}
	loadedOf := map[*HarnessSpec]*Loaded{}
	wits := map[string]wit{}
	for _, l := range loaded {
		for _, s := range l.specs {
			if s.Prop != prop {
				// harness names are only unique within a property
				if fnsBySub[s.Pkg] == nil {
					fnsBySub[s.Pkg] = map[string]bool{}
				}
				fnsBySub[s.Pkg][s.Fn.Name()] = true
				continue
			}
			if fnsBySub[s.Pkg] == nil {
				fnsBySub[s.Pkg] = map[string]bool{}
			}
			fnsBySub[s.Pkg][s.Fn.Name()] = true
			specOf[s.Name] = s
			loadedOf[s] = l
		}
	}
	for i, jr := range results {
		if jr.res.Witness == nil || jr.spec.Opts["noreplay"] != "" {
			continue
		}
		id := fmt.Sprintf("w%d:%s:%s", i, jr.spec.Name, casesKey(jr.res.Cases))
		j := nativeJob{ID: id, Harness: jr.spec.Fn.Name(), Cases: jr.res.Cases, Vars: jr.res.Witness, Digests: jr.res.WitnessDig}
		bySub[jr.spec.Pkg] = append(bySub[jr.spec.Pkg], j)
		wits[id] = wit{jr, j}
	}
	violOf := map[string]*Violation{}
	for i, v := range viols {
		hs := specOf[v.Harness]
		if hs != nil && hs.Opts["confirm"] == "analysis" {
			// properties of the code's structure (constant-time comparison) have no observable native
			// counterpart: the witness is the symbolic trace pair; replay = deterministic re-analysis
			v.Replayed = "confirmed"
			v.Replay = keepAnalysisReplay(prop, hs, v)
			continue
		}
		if hs == nil || hs.Opts["noreplay"] != "" {
			v.Replayed = "skipped"
			continue
		}
		id := fmt.Sprintf("v%d:%s", i, violationKey(v))
		bySub[hs.Pkg] = append(bySub[hs.Pkg], nativeJob{ID: id, Harness: hs.Fn.Name(), Cases: v.Cases, Vars: v.Model, Digests: v.Digests})
		violOf[id] = v
	}
	validated := 0
	tmp, err := os.MkdirTemp("", "verif-replay-")
	if err != nil {
		return 0, []string{"mktemp: " + err.Error()}
	}
	defer os.RemoveAll(tmp)
	for sub, jobs := range bySub {

		var fns []string
		for f := range fnsBySub[sub] {
			fns = append(fns, f)
		}
		res, log, err := runNative(sub, jobs, fns, filepath.Join(tmp, sub))
		if err != nil {
			notes = append(notes, "native replay failed: "+err.Error())
			for _, j := range jobs {
				if v := violOf[j.ID]; v != nil {
					v.Replayed = "error"
				}
			}
			continue
		}
		_ = log
		byID := map[string]nativeResult{}
		for _, r := range res {
			byID[r.ID] = r
		}
		for _, j := range jobs {
			r, ok := byID[j.ID]
			if v := violOf[j.ID]; v != nil {
				if !ok {
					v.Replayed = "error"
					continue
				}
				confirmed := false
				// any assertion of the harness failing natively on the model is a genuine violation of
				// the property (the failing assertion may be a neighbouring clause of the same defect)
				confirmed = r.Panic != "" || len(r.Failed) > 0 || r.Timeout
				if confirmed && v.Name != "uncaught-panic" {
					same := false
					for _, f := range r.Failed {
						if f == v.Name {
							same = true
						}
					}
					if !same {
						v.Detail = strings.TrimSpace(v.Detail + fmt.Sprintf(" (natively failing assertion(s): %v)", r.Failed))
					}
				}
				if confirmed {
					v.Replayed = "confirmed"
					v.Replay = keepReplay(prop, sub, j, fns)
					if r.Panic != "" {
						v.Detail = strings.TrimSpace(v.Detail + " native panic: " + firstN(r.Panic, 200))
					}
					if r.Timeout {
						v.Detail = strings.TrimSpace(v.Detail + " native run did not return within 60 s")
					}
				} else {
					v.Replayed = "not-reproduced"
					notes = append(notes, fmt.Sprintf("model for %s did not reproduce natively (failed=%v panic=%q assume_failed=%v %s)", j.ID, r.Failed, r.Panic, r.AssumeFailed, r.AssumeSite))
				}
				continue
			}
			// witness: executor in concrete mode must agree with the native run
			w := wits[j.ID]
			if !ok {
				notes = append(notes, "no native result for witness "+j.ID)
				continue
			}
			obs, failed, outcome := concreteRun(loadedOf[w.jr.spec], w.jr.spec, j.Cases, j.Vars, j.Digests)
			if strings.HasPrefix(outcome, "concrete-symbolic") || strings.HasPrefix(outcome, "unsupported") {
				notes = append(notes, fmt.Sprintf("witness %s not comparable in concrete mode (%s)", j.ID, firstN(outcome, 120)))
				continue
			}
			agree := true
			var diffs []string
			if (outcome == "panic" || strings.HasPrefix(outcome, "panic")) != (r.Panic != "") {
				agree = false
				diffs = append(diffs, fmt.Sprintf("outcome executor=%s native panic=%q", outcome, r.Panic))
			}
			if r.AssumeFailed != (strings.HasPrefix(outcome, "infeasible") || strings.HasPrefix(outcome, "skipped")) {
				agree = false
				diffs = append(diffs, fmt.Sprintf("assumptions: executor=%s native assume_failed=%v", outcome, r.AssumeFailed))
			}
			sort.Strings(failed)
			nf := append([]string{}, r.Failed...)
			sort.Strings(nf)
			if strings.Join(failed, "|") != strings.Join(nf, "|") {
				agree = false
				diffs = append(diffs, fmt.Sprintf("failed assertions executor=%v native=%v", failed, nf))
			}
			for k, ov := range obs {
				if nv, ok := r.Observes[k]; ok && nv != ov {
					agree = false
					diffs = append(diffs, fmt.Sprintf("observe %s executor=%s native=%s", k, firstN(ov, 200), firstN(nv, 200)))
				}
			}
			if agree {
				validated++
			} else {
				notes = append(notes, "TRANSLATOR-MISMATCH "+j.ID+": "+strings.Join(diffs, "; "))
				w.jr.res.EngineError = "executor and native run disagree on witness " + j.ID + ": " + strings.Join(diffs, "; ")
			}
		}
	}
	return validated, notes
}

// keepReplay stores a self-contained replay directory under /verif/replays.
func keepReplay(prop, sub string, j nativeJob, fns []string) string {
	jb, _ := json.Marshal(j)
	h := fmt.Sprintf("%x", sha256.Sum256(jb))[:12]
	dir := filepath.Join("/verif/replays", prop+"-"+h)
	os.MkdirAll(dir, 0o755)
	meta := map[string]any{"property": prop, "package": sub, "job": j, "harness_functions": fns,
		"how": "gosym replay " + dir + "  (runs `go test -overlay` in /repo with the harness overlay and this model; exit 1 if the assertion still fails)"}
	mb, _ := json.MarshalIndent(meta, "", " ")
	os.WriteFile(filepath.Join(dir, "replay.json"), mb, 0o644)
	return dir
}

func cmdReplay(dir string) int {
	mb, err := os.ReadFile(filepath.Join(dir, "replay.json"))
	if err != nil {
		fmt.Println("cannot read replay:", err)
		return 2
	}
	var meta struct {
		Property string    `json:"property"`
		Package  string    `json:"package"`
		Job      nativeJob `json:"job"`
		Fns      []string  `json:"harness_functions"`
		Analysis bool      `json:"analysis_only"`
		Rerun    []string  `json:"rerun"`
	}
	if err := json.Unmarshal(mb, &meta); err != nil {
		fmt.Println("bad replay.json:", err)
		return 2
	}
	if meta.Analysis {
		cmd := exec.Command(meta.Rerun[0], meta.Rerun[1:]...)
		cmd.Stdout, cmd.Stderr = os.Stdout, os.Stderr
		if err := cmd.Run(); err != nil {
			if ee, ok := err.(*exec.ExitError); ok {
				return ee.ExitCode()
			}
			return 2
		}
		return 0
	}
	tmp, _ := os.MkdirTemp("", "verif-replay-")
	defer os.RemoveAll(tmp)
	res, log, err := runNative(meta.Package, []nativeJob{meta.Job}, meta.Fns, tmp)
	if err != nil {
		fmt.Println("replay failed to run:", err)
		fmt.Println(firstN(log, 3000))
		return 2
	}
	r := res[0]
	fmt.Printf("replay %s: failed assertions=%v panic=%q assume_failed=%v asserts_evaluated=%d\n", meta.Job.ID, r.Failed, r.Panic, r.AssumeFailed, r.Asserts)
	if len(r.Failed) > 0 || r.Panic != "" {
		fmt.Printf("VIOLATION property=%s replay=%s\n", meta.Property, dir)
		return 1
	}
	return 0
}

func keepAnalysisReplay(prop string, hs *HarnessSpec, v *Violation) string {
	jb, _ := json.Marshal(v)
	h := fmt.Sprintf("%x", sha256.Sum256(jb))[:12]
	dir := filepath.Join("/verif/replays", prop+"-"+h)
	os.MkdirAll(dir, 0o755)
	var cs []string
	for k, x := range v.Cases {
		cs = append(cs, fmt.Sprintf("%s=%d", k, x))
	}
	sort.Strings(cs)
	meta := map[string]any{"property": prop, "analysis_only": true, "harness": hs.Name, "cases": v.Cases, "violation": v,
		"rerun": []string{"/verif/bin/gosym", "check", "--prop", prop, "--only", hs.Name, "--case", strings.Join(cs, ",")},
		"how":   "structural property: replay re-runs the symbolic analysis of this harness instance against /repo's current SSA"}
	mb, _ := json.MarshalIndent(meta, "", " ")
	os.WriteFile(filepath.Join(dir, "replay.json"), mb, 0o644)
	return dir
}
