package main

// Stubs for the REST layer (package internal/app/api, properties C18/C19): fasthttp.RequestCtx
// methods, encoding/json and log/slog.  A request is described by the harness (method, path,
// query arguments, the Go value the JSON body decodes to, or "the body does not decode"); the
// response is what the handler set (status, content type, the Go value that was marshalled).
// JSON text (field names, tags, number syntax), HTTP framing and routing inside fasthttp are
// outside the model.

import (
	"fmt"
	"go/types"

	"golang.org/x/tools/go/ssa"
)

type httpState struct {
	method     *StrV
	path       *StrV
	query      map[string]*StrV
	reqValue   *IfaceV // what the body decodes to (nil typ => no body / arbitrary)
	failDecode *Term
	statusSets int
	status     *Term
	bodySets   int
	body       Value // *IfaceV of the marshalled Go value, or *StrV for SetBodyString, or opaque
	ctype      *StrV
	bodyArr    *Arr // tag of PostBody() bytes
}

const fh = "github.com/valyala/fasthttp"

func (e *Exec) httpOf(v Value) *httpState {
	p, ok := v.(*PtrV)
	if !ok || p.c == nil {
		panic(e.internal("not a *RequestCtx"))
	}
	st := e.httpStates[p.c]
	if st == nil {
		st = &httpState{method: e.constString("GET"), path: e.constString("/"), query: map[string]*StrV{}, failDecode: e.tb.False(), status: e.c64(200)}
		e.httpStates[p.c] = st
	}
	return st
}

func registerRESTIntrinsics() {
	m := func(name string) string { return "(*" + fh + ".RequestCtx)." + name }
	intrinsics[m("IsPost")] = func(e *Exec, a []Value, s *ssa.CallCommon) Value {
		return e.strEqNoFork(e.httpOf(a[0]).method, e.constString("POST"))
	}
	intrinsics[m("IsGet")] = func(e *Exec, a []Value, s *ssa.CallCommon) Value {
		return e.strEqNoFork(e.httpOf(a[0]).method, e.constString("GET"))
	}
	intrinsics[m("Method")] = func(e *Exec, a []Value, s *ssa.CallCommon) Value {
		return e.strToBytes(e.httpOf(a[0]).method)
	}
	intrinsics[m("Path")] = func(e *Exec, a []Value, s *ssa.CallCommon) Value {
		return e.strToBytes(e.httpOf(a[0]).path)
	}
	intrinsics[m("PostBody")] = func(e *Exec, a []Value, s *ssa.CallCommon) Value {
		st := e.httpOf(a[0])
		b := e.opaqueString("http_body", 16, &fmtRecord{format: "request body"})
		st.bodyArr = b.arr
		e.bodyOwner[b.arr] = st
		return &SliceV{arr: b.arr, off: b.off, len: b.len, cap: b.len}
	}
	intrinsics[m("QueryArgs")] = func(e *Exec, a []Value, s *ssa.CallCommon) Value {
		return &OpaqueV{kind: "fasthttp.Args", data: e.httpOf(a[0])}
	}
	intrinsics["(*"+fh+".Args).Peek"] = func(e *Exec, a []Value, s *ssa.CallCommon) Value {
		st := a[0].(*OpaqueV).data.(*httpState)
		k := e.mustConcreteString(a[1], "query key")
		if v, ok := st.query[k]; ok {
			return e.strToBytes(v)
		}
		return &SliceV{off: e.c64(0), len: e.c64(0), cap: e.c64(0)}
	}
	intrinsics[m("SetStatusCode")] = func(e *Exec, a []Value, s *ssa.CallCommon) Value {
		st := e.httpOf(a[0])
		st.statusSets++
		st.status = a[1].(*Term)
		return &TupleV{}
	}
	intrinsics[m("SetContentType")] = func(e *Exec, a []Value, s *ssa.CallCommon) Value {
		e.httpOf(a[0]).ctype = a[1].(*StrV)
		return &TupleV{}
	}
	intrinsics[m("SetBody")] = func(e *Exec, a []Value, s *ssa.CallCommon) Value {
		st := e.httpOf(a[0])
		st.bodySets++
		sl := a[1].(*SliceV)
		if sl.arr != nil {
			if v, ok := e.jsonVals[sl.arr]; ok {
				st.body = v
				return &TupleV{}
			}
		}
		st.body = sl
		return &TupleV{}
	}
	intrinsics[m("SetBodyString")] = func(e *Exec, a []Value, s *ssa.CallCommon) Value {
		st := e.httpOf(a[0])
		st.bodySets++
		st.body = a[1]
		return &TupleV{}
	}
	intrinsics[m("Redirect")] = func(e *Exec, a []Value, s *ssa.CallCommon) Value {
		st := e.httpOf(a[0])
		st.statusSets++
		st.status = a[2].(*Term)
		st.bodySets++
		st.body = a[1]
		return &TupleV{}
	}
	intrinsics[m("SetUserValue")] = func(e *Exec, a []Value, s *ssa.CallCommon) Value { return &TupleV{} }
	intrinsics["(*"+fh+".Response).StatusCode"] = func(e *Exec, a []Value, s *ssa.CallCommon) Value {
		return e.c64(0)
	}
	// encoding/json
	intrinsics["encoding/json.Unmarshal"] = func(e *Exec, a []Value, s *ssa.CallCommon) Value {
		data := a[0].(*SliceV)
		var st *httpState
		if data.arr != nil {
			st = e.bodyOwner[data.arr]
		}
		if st == nil {
			panic(e.unsupported("json.Unmarshal of bytes that are not a request body"))
		}
		mkErr := func(msg string) Value {
			rec := &fmtRecord{format: msg, exact: true, str: e.constString(msg)}
			return &IfaceV{typ: nil, v: &OpaqueV{kind: "fmterror", data: rec}}
		}
		if e.branch(st.failDecode, "json.Unmarshal-fails") {
			return mkErr("json: cannot decode body")
		}
		target := a[1].(*IfaceV)
		tp, ok := target.v.(*PtrV)
		if !ok || tp.c == nil || st.reqValue == nil || st.reqValue.typ == nil {
			return mkErr("json: no body")
		}
		if !types.Identical(st.reqValue.typ, tp.c.typ) {
			// the body was built for another endpoint: decodes into something unrelated
			return mkErr("json: body of a different shape")
		}
		e.noteWrite(tp.c.obj, "json.Unmarshal")
		e.storeTrail(tp.c, st.reqValue.v)
		return &IfaceV{}
	}
	intrinsics["encoding/json.Marshal"] = func(e *Exec, a []Value, s *ssa.CallCommon) Value {
		iv := a[0].(*IfaceV)
		b := e.opaqueString("json_out", 16, &fmtRecord{format: "json.Marshal", args: []Value{iv}})
		e.jsonVals[b.arr] = iv
		return &TupleV{E: []Value{&SliceV{arr: b.arr, off: b.off, len: b.len, cap: b.len}, &IfaceV{}}}
	}
	intrinsics["(*encoding/json.Encoder).Encode"] = func(e *Exec, a []Value, s *ssa.CallCommon) Value {
		enc := a[0].(*PtrV)
		// the writer is the first field of Encoder
		var ctxPtr Value
		if enc.c != nil && len(enc.c.kids) > 0 {
			if iv, ok := enc.c.kids[0].v.(*IfaceV); ok {
				ctxPtr = iv.v
			}
		}
		if ctxPtr != nil {
			if p, ok := ctxPtr.(*PtrV); ok && p.c != nil {
				st := e.httpOf(p)
				st.bodySets++
				st.body = a[1]
			}
		}
		return &IfaceV{}
	}
	intrinsics["net/http.StatusText"] = func(e *Exec, a []Value, s *ssa.CallCommon) Value {
		return e.opaqueString("status_text", 32, &fmtRecord{format: "http.StatusText", args: []Value{a[0]}})
	}
	// log/slog, runtime stack capture: no effect on the response
	for _, n := range []string{"log/slog.Info", "log/slog.Error", "log/slog.Warn", "log/slog.Debug"} {
		intrinsics[n] = func(e *Exec, a []Value, s *ssa.CallCommon) Value { return &TupleV{} }
	}
	for _, n := range []string{"log/slog.String", "log/slog.Int", "log/slog.Any", "log/slog.Duration"} {
		nn := n
		intrinsics[nn] = func(e *Exec, a []Value, s *ssa.CallCommon) Value {
			fn := s.StaticCallee()
			return e.zero(fn.Signature.Results().At(0).Type())
		}
	}
	intrinsics["runtime.Callers"] = func(e *Exec, a []Value, s *ssa.CallCommon) Value { return e.c64(0) }
	intrinsics["runtime.CallersFrames"] = func(e *Exec, a []Value, s *ssa.CallCommon) Value { return &PtrV{} }
	intrinsics["(*runtime.Frames).Next"] = func(e *Exec, a []Value, s *ssa.CallCommon) Value {
		fn := s.StaticCallee()
		return &TupleV{E: []Value{e.zero(fn.Signature.Results().At(0).Type()), e.tb.False()}}
	}
}

func (e *Exec) strToBytes(s *StrV) Value {
	if s.arr == nil {
		return &SliceV{off: e.c64(0), len: e.c64(0), cap: e.c64(0)}
	}
	if s.len.IsConst() {
		bs := e.strBytes(s)
		arr := e.mkBytes(bs, e.newObj("alloc", "bytes-of-string"))
		n := e.c64(int64(len(bs)))
		return &SliceV{arr: arr, off: e.c64(0), len: n, cap: n}
	}
	return &SliceV{arr: s.arr, off: s.off, len: s.len, cap: s.len}
}

var _ = fmt.Sprint
