package main

import (
	"math/big"

	"golang.org/x/tools/go/ssa"
)

func registerExtraIntrinsics() {
	intrinsics["(*math/big.Int).SetString"] = inBigSetString
	intrinsics["(*math/big.Int).Text"] = inBigText
	registerURLIntrinsics()
}

// math/big by contract.  Concrete text is evaluated natively; symbolic text is
// handled by the C17 contract (see bigcontract in c17 support).
type bigVal struct {
	conc *big.Int
	sym  *bigSym
}

func inBigSetString(e *Exec, args []Value, site *ssa.CallCommon) Value {
	z := args[0].(*PtrV)
	base := args[2].(*Term)
	if !base.IsConst() {
		panic(e.unsupported("big.Int.SetString with symbolic base"))
	}
	if s, ok := e.concreteString(args[1].(*StrV)); ok {
		v, ok := new(big.Int).SetString(s, int(base.val))
		if !ok {
			return &TupleV{E: []Value{&PtrV{}, e.tb.False()}}
		}
		e.bigInts[z.c] = &bigVal{conc: v}
		return &TupleV{E: []Value{z, e.tb.True()}}
	}
	return e.bigSetStringSym(z, args[1].(*StrV), int(base.val))
}

func inBigText(e *Exec, args []Value, site *ssa.CallCommon) Value {
	x := args[0].(*PtrV)
	base := args[1].(*Term)
	if x.c == nil {
		return e.constString("<nil>")
	}
	bv := e.bigInts[x.c]
	if bv == nil {
		bv = &bigVal{conc: new(big.Int)}
	}
	if bv.conc != nil {
		return e.constString(bv.conc.Text(int(base.val)))
	}
	return e.bigTextSym(bv.sym, int(base.val))
}

func (e *Exec) traceVarTime(kind string, x, y *StrV) {
	if e.opaque["tracing"] != true {
		return
	}
	e.varTime = append(e.varTime, varTimeEv{kind: kind, x: x, y: y, site: e.site()})
}

type varTimeEv struct {
	kind string
	x, y *StrV
	site string
}

func assumptionsFor(prop string) []string {
	return []string{
		"go/ssa (x/tools v0.29.0) faithfully represents the compiled Go code; the gosym executor implements SSA semantics (validated per run by native replay of reachability witnesses)",
		"SMT solvers z3 4.8.12 / z3 5.1.0 / cvc5 1.0.3 are sound (thorough tier cross-checks unsat answers on a second solver)",
		"HMAC-SHA1/256/512 are modelled as uninterpreted functions of (key bytes, message bytes); results hold for every digest value",
	}
}
