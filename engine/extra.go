package main

import (
	"fmt"
	"math/big"

	"golang.org/x/tools/go/ssa"
)

func registerExtraIntrinsics() {
	intrinsics["(*math/big.Int).SetString"] = inBigSetString
	intrinsics["(*math/big.Int).Text"] = inBigText
	registerURLIntrinsics()
	intrinsics["strconv.FormatUint"] = inFormatUint
	registerJSIntrinsics()
	registerRESTIntrinsics()
}

// math/big by contract.  Concrete text is evaluated natively; symbolic text is
// handled by the C17 contract (see bigcontract in c17 support).
type bigVal struct {
	conc *big.Int
	sym  *bigSym
}

func inBigSetString(e *Exec, args []Value, site *ssa.CallCommon) Value {
	z := args[0].(*PtrV)
	base := args[2].(*Term)
	if !base.IsConst() {
		panic(e.unsupported("big.Int.SetString with symbolic base"))
	}
	if s, ok := e.concreteString(args[1].(*StrV)); ok {
		v, ok := new(big.Int).SetString(s, int(base.val))
		if !ok {
			return &TupleV{E: []Value{&PtrV{}, e.tb.False()}}
		}
		e.bigInts[z.c] = &bigVal{conc: v}
		return &TupleV{E: []Value{z, e.tb.True()}}
	}
	return e.bigSetStringSym(z, args[1].(*StrV), int(base.val))
}

func inBigText(e *Exec, args []Value, site *ssa.CallCommon) Value {
	x := args[0].(*PtrV)
	base := args[1].(*Term)
	if x.c == nil {
		return e.constString("<nil>")
	}
	bv := e.bigInts[x.c]
	if bv == nil {
		bv = &bigVal{conc: new(big.Int)}
	}
	if bv.conc != nil {
		return e.constString(bv.conc.Text(int(base.val)))
	}
	return e.bigTextSym(bv.sym, int(base.val))
}

func (e *Exec) traceVarTime(kind string, x, y *StrV) {
	if e.opaque["tracing"] != true {
		return
	}
	e.varTime = append(e.varTime, varTimeEv{kind: kind, x: x, y: y, site: e.site()})
}

type varTimeEv struct {
	kind string
	x, y *StrV
	site string
}

func assumptionsFor(prop string) []string {
	return []string{
		"go/ssa (x/tools v0.29.0) faithfully represents the compiled Go code; the gosym executor implements SSA semantics (validated per run by native replay of reachability witnesses)",
		"SMT solvers z3 4.8.12 / z3 5.1.0 / cvc5 1.0.3 are sound (thorough tier cross-checks unsat answers on a second solver)",
		"HMAC-SHA1/256/512 are modelled as uninterpreted functions of (key bytes, message bytes); results hold for every digest value",
	}
}

// strconv.FormatUint(x, 10) by contract: the shortest decimal rendering of x.  One path per
// number of digits k (10^(k-1) <= x < 10^k); the digits are (x / 10^(k-1-j)) % 10.
func inFormatUint(e *Exec, args []Value, site *ssa.CallCommon) Value {
	x := args[0].(*Term)
	base := args[1].(*Term)
	if !base.IsConst() || base.val != 10 {
		panic(e.unsupported("strconv.FormatUint with base != 10"))
	}
	if x.IsConst() {
		return e.constString(fmt.Sprintf("%d", x.val))
	}
	tb := e.tb
	maxk := 20
	ub := upperBound(x)
	p := uint64(1)
	for k := 1; k <= 19; k++ {
		p *= 10
		if ub < p {
			maxk = k
			break
		}
	}
	var conds []*Term
	pow := make([]uint64, 21)
	pow[0] = 1
	for k := 1; k <= 19; k++ {
		pow[k] = pow[k-1] * 10
	}
	for k := 1; k <= maxk; k++ {
		c := tb.True()
		if k > 1 {
			c = tb.Ule(tb.Const(64, pow[k-1]), x)
		}
		if k <= 19 {
			c = tb.And(c, tb.Ult(x, tb.Const(64, pow[k])))
		}
		conds = append(conds, c)
	}
	k := e.choose(conds, "FormatUint-digits") + 1
	// digits as a division chain (q -> q/10), least significant first
	ds := make([]*Term, k)
	q := x
	ten := tb.Const(64, 10)
	for j := k - 1; j >= 0; j-- {
		d := tb.URem(q, ten)
		ds[j] = tb.Add(tb.Extract(d, 7, 0), tb.Const(8, '0'))
		q = tb.UDiv(q, ten)
	}
	return e.mkString(ds)
}
