package main

func registerExtraIntrinsics() {}

func (e *Exec) traceVarTime(kind string, x, y *StrV) {
	if e.opaque["tracing"] != true {
		return
	}
	e.varTime = append(e.varTime, varTimeEv{kind: kind, x: x, y: y, site: e.site()})
}

type varTimeEv struct {
	kind string
	x, y *StrV
	site string
}

func assumptionsFor(prop string) []string {
	return []string{
		"go/ssa (x/tools v0.29.0) faithfully represents the compiled Go code; the gosym executor implements SSA semantics (validated per run by native replay of reachability witnesses)",
		"SMT solvers z3 4.8.12 / z3 5.1.0 / cvc5 1.0.3 are sound (thorough tier cross-checks unsat answers on a second solver)",
		"HMAC-SHA1/256/512 are modelled as uninterpreted functions of (key bytes, message bytes); results hold for every digest value",
	}
}
