package main

// Contracts for net/url used by the otpauth URL code (C16) and by REST / wasm callers.
//  * url.PathEscape: byte-wise model of shouldEscape(c, encodePathSegment): kept are
//    A-Z a-z 0-9 - _ . ~ $ & + = : @ ; everything else becomes %XX (upper-case hex).
//  * (url.Values).Encode: opaque text that records the map it encodes.
//  * (*url.URL).String: opaque text that records Scheme, Host, Path, RawQuery.
//  * url.Parse(text of (*URL).String()): a URL with the same Scheme, Host, Path and RawQuery
//    (documented round trip for URLs without Opaque / RawPath / User / Fragment).
//  * (*url.URL).Query(): the Values recorded for RawQuery; concrete text is parsed with the real net/url.
// Concrete arguments are evaluated with the real net/url.

import (
	"fmt"
	"go/types"
	"net/url"
	"sort"

	"golang.org/x/tools/go/ssa"
)

type valuesSnap struct {
	keys []string
	vals [][]*StrV
}

func registerURLIntrinsics() {
	intrinsics["net/url.PathEscape"] = inPathEscape
	intrinsics["(net/url.Values).Encode"] = inValuesEncode
	intrinsics["(*net/url.URL).String"] = inURLString
	// contract: Redacted() == String() for a URL without user information
	intrinsics["(*net/url.URL).Redacted"] = func(e *Exec, args []Value, site *ssa.CallCommon) Value {
		p := args[0].(*PtrV)
		if p.c == nil {
			return e.constString("")
		}
		f := e.urlFields(p.c.typ)
		if up, ok := p.c.kids[f["User"]].v.(*PtrV); ok && up.c != nil {
			panic(e.unsupported("URL.Redacted with user information"))
		}
		return inURLString(e, args, site)
	}
	intrinsics["net/url.Parse"] = inURLParse
	intrinsics["(*net/url.URL).Query"] = inURLQuery
}

func inPathEscape(e *Exec, args []Value, site *ssa.CallCommon) Value {
	s := args[0].(*StrV)
	if cs, ok := e.concreteString(s); ok {
		return e.constString(url.PathEscape(cs))
	}
	tb := e.tb
	bs := e.strBytes(s)
	var out []*Term
	hex := func(n *Term) *Term { // nibble -> upper-case hex digit
		return tb.Ite(tb.Ult(n, tb.Const(8, 10)), tb.Add(n, tb.Const(8, '0')), tb.Add(n, tb.Const(8, 'A'-10)))
	}
	for _, c := range bs {
		in := func(lo, hi byte) *Term {
			return tb.And(tb.Ule(tb.Const(8, uint64(lo)), c), tb.Ule(c, tb.Const(8, uint64(hi))))
		}
		keep := tb.Or(in('A', 'Z'), in('a', 'z'), in('0', '9'))
		for _, k := range []byte("-_.~$&+=:@") {
			keep = tb.Or(keep, tb.Eq(c, tb.Const(8, uint64(k))))
		}
		if e.branch(keep, "pathescape-keep") {
			out = append(out, c)
		} else {
			out = append(out, tb.Const(8, '%'), hex(tb.ZExt(tb.Extract(c, 7, 4), 4)), hex(tb.ZExt(tb.Extract(c, 3, 0), 4)))
		}
	}
	if len(out) == 0 {
		return e.constString("")
	}
	return e.mkString(out)
}

func (e *Exec) snapValues(m *MapObj) *valuesSnap {
	sn := &valuesSnap{}
	if m == nil {
		return sn
	}
	type kv struct {
		k string
		v []*StrV
	}
	var kvs []kv
	for i, k := range m.keys {
		ks := e.mustConcreteString(k, "url.Values key")
		sv, _ := e.loadCell(m.vals[i]).(*SliceV)
		var vs []*StrV
		if sv != nil && sv.arr != nil {
			n := e.concLen(sv.len, "url.Values slice length")
			for j := 0; j < n; j++ {
				vs = append(vs, e.arrGet(sv.arr, e.tb.Add(sv.off, e.c64(int64(j)))).(*StrV))
			}
		}
		kvs = append(kvs, kv{ks, vs})
	}
	sort.Slice(kvs, func(i, j int) bool { return kvs[i].k < kvs[j].k })
	for _, x := range kvs {
		sn.keys = append(sn.keys, x.k)
		sn.vals = append(sn.vals, x.v)
	}
	return sn
}

func inValuesEncode(e *Exec, args []Value, site *ssa.CallCommon) Value {
	mv := args[0].(*MapV)
	sn := e.snapValues(mv.m)
	// fully concrete: real encoding
	conc := url.Values{}
	allConc := true
	for i, k := range sn.keys {
		for _, v := range sn.vals[i] {
			cs, ok := e.concreteString(v)
			if !ok {
				allConc = false
			}
			conc.Add(k, cs)
		}
	}
	if allConc {
		return e.constString(conc.Encode())
	}
	var parts []Value
	for i := range sn.keys {
		for _, v := range sn.vals[i] {
			parts = append(parts, v)
		}
	}
	r := e.opaqueString("url_query", 256, &fmtRecord{format: "url.Values.Encode", args: parts})
	e.valuesMeta[r.arr] = sn
	return r
}

func (e *Exec) urlFields(t types.Type) map[string]int {
	st := t.Underlying().(*types.Struct)
	m := map[string]int{}
	for i := 0; i < st.NumFields(); i++ {
		m[st.Field(i).Name()] = i
	}
	return m
}

func inURLString(e *Exec, args []Value, site *ssa.CallCommon) Value {
	p := args[0].(*PtrV)
	if p.c == nil {
		e.nilDeref()
	}
	f := e.urlFields(p.c.typ)
	get := func(n string) *StrV { return p.c.kids[f[n]].v.(*StrV) }
	sc, ok1 := e.concreteString(get("Scheme"))
	h, ok2 := e.concreteString(get("Host"))
	pa, ok3 := e.concreteString(get("Path"))
	rq, ok4 := e.concreteString(get("RawQuery"))
	if ok1 && ok2 && ok3 && ok4 {
		u := url.URL{Scheme: sc, Host: h, Path: pa, RawQuery: rq}
		return e.constString(u.String())
	}
	r := e.opaqueString("url_text", 512, &fmtRecord{format: "URL.String", args: []Value{get("Scheme"), get("Host"), get("Path"), get("RawQuery")}})
	e.urlMeta[r.arr] = []*StrV{get("Scheme"), get("Host"), get("Path"), get("RawQuery")}
	return r
}

func (e *Exec) urlType() types.Type {
	up := e.prog.ImportedPackage("net/url")
	if up == nil {
		panic(e.unsupported("net/url not loaded"))
	}
	return up.Type("URL").Type()
}

func inURLParse(e *Exec, args []Value, site *ssa.CallCommon) Value {
	s := args[0].(*StrV)
	ut := e.urlType()
	mk := func(fields map[string]*StrV) Value {
		c := e.newCell(ut, e.newObj("alloc", "url.Parse"), nil)
		f := e.urlFields(ut)
		for n, v := range fields {
			e.setLeaf(c.kids[f[n]], v)
		}
		return &TupleV{E: []Value{&PtrV{c: c}, &IfaceV{}}}
	}
	if s.arr != nil {
		if m, ok := e.urlMeta[s.arr]; ok {
			return mk(map[string]*StrV{"Scheme": m[0], "Host": m[1], "Path": m[2], "RawQuery": m[3]})
		}
	}
	cs, ok := e.concreteString(s)
	if !ok {
		panic(e.unsupported("url.Parse on symbolic text that is not the String() of a URL"))
	}
	u, err := url.Parse(cs)
	if err != nil {
		rec := &fmtRecord{format: "parse error", exact: true, str: e.constString(err.Error())}
		return &TupleV{E: []Value{&PtrV{}, &IfaceV{typ: nil, v: &OpaqueV{kind: "fmterror", data: rec}}}}
	}
	return mk(map[string]*StrV{"Scheme": e.constString(u.Scheme), "Host": e.constString(u.Host), "Path": e.constString(u.Path),
		"RawQuery": e.constString(u.RawQuery), "Opaque": e.constString(u.Opaque), "Fragment": e.constString(u.Fragment), "RawPath": e.constString(u.RawPath)})
}

func inURLQuery(e *Exec, args []Value, site *ssa.CallCommon) Value {
	p := args[0].(*PtrV)
	if p.c == nil {
		e.nilDeref()
	}
	f := e.urlFields(p.c.typ)
	rq := p.c.kids[f["RawQuery"]].v.(*StrV)
	st := types.Typ[types.String]
	mo := &MapObj{kt: st, vt: types.NewSlice(st), obj: e.newObj("alloc", "url.Query")}
	add := func(k string, vs []*StrV) {
		mo.keys = append(mo.keys, e.constString(k))
		mo.vals = append(mo.vals, e.newCell(mo.vt, mo.obj, e.stringSliceValue(vs)))
	}
	if rq.arr != nil {
		if sn, ok := e.valuesMeta[rq.arr]; ok {
			for i, k := range sn.keys {
				add(k, sn.vals[i])
			}
			return &MapV{m: mo}
		}
	}
	cs, ok := e.concreteString(rq)
	if !ok {
		panic(e.unsupported("URL.Query on symbolic RawQuery without recorded values"))
	}
	vals, _ := url.ParseQuery(cs)
	var ks []string
	for k := range vals {
		ks = append(ks, k)
	}
	sort.Strings(ks)
	for _, k := range ks {
		var vs []*StrV
		for _, v := range vals[k] {
			vs = append(vs, e.constString(v))
		}
		add(k, vs)
	}
	return &MapV{m: mo}
}

var _ = fmt.Sprint
