package main

// Contracts of package sync beyond Pool and the mutexes: Once, Map (string keys), and the
// bodyless sync/atomic primitives (sequential semantics: schedules are not explored).

import (
	"go/types"
	"strings"

	"golang.org/x/tools/go/ssa"
)

func init() { registerSyncIntrinsics() }

func registerSyncIntrinsics() {
	// sync/atomic on integers: plain loads and stores
	for _, t := range []string{"Int32", "Int64", "Uint32", "Uint64", "Uintptr"} {
		t := t
		intrinsics["sync/atomic.Load"+t] = func(e *Exec, a []Value, s *ssa.CallCommon) Value { return e.load(a[0]) }
		intrinsics["sync/atomic.Store"+t] = func(e *Exec, a []Value, s *ssa.CallCommon) Value {
			e.store(a[0], a[1])
			return &TupleV{}
		}
		intrinsics["sync/atomic.Add"+t] = func(e *Exec, a []Value, s *ssa.CallCommon) Value {
			nv := e.tb.Add(e.load(a[0]).(*Term), a[1].(*Term))
			e.store(a[0], nv)
			return nv
		}
		intrinsics["sync/atomic.Swap"+t] = func(e *Exec, a []Value, s *ssa.CallCommon) Value {
			old := e.load(a[0])
			e.store(a[0], a[1])
			return old
		}
		intrinsics["sync/atomic.CompareAndSwap"+t] = func(e *Exec, a []Value, s *ssa.CallCommon) Value {
			cur := e.load(a[0]).(*Term)
			if e.branch(e.tb.Eq(cur, a[1].(*Term)), "atomic.CAS") {
				e.store(a[0], a[2])
				return e.tb.True()
			}
			return e.tb.False()
		}
	}
	// sync.Once: the function runs at the first Do of this Once value; what it allocates and
	// stores is initialisation of package state (like a package initialiser run lazily)
	intrinsics["(*sync.Once).Do"] = func(e *Exec, a []Value, s *ssa.CallCommon) Value {
		p := a[0].(*PtrV)
		if p.c == nil {
			e.nilDeref()
		}
		leaf := firstU32Leaf(p.c)
		if leaf == nil {
			panic(e.unsupported("sync.Once layout"))
		}
		if t, ok := leaf.v.(*Term); ok && t.IsConst() && t.val != 0 {
			return &TupleV{}
		}
		e.storeTrail(leaf, e.tb.Const(32, 1))
		f, _ := a[1].(*FuncV)
		if f == nil {
			panic(&goPanic{val: e.runtimeError("invalid memory address or nil pointer dereference"), site: e.site()})
		}
		saveEpoch := e.epoch
		e.epoch = 0
		e.opaque["ininit"] = e.opaque["ininit"].(int) + 1
		func() {
			defer func() {
				e.opaque["ininit"] = e.opaque["ininit"].(int) - 1
				e.epoch = saveEpoch
			}()
			e.call(f, nil, nil)
		}()
		if f.fn != nil && f.fn.Pkg != nil {
			e.protectPackageState(f.fn.Pkg)
		} else if f.fn != nil && f.fn.Parent() != nil && f.fn.Parent().Pkg != nil {
			e.protectPackageState(f.fn.Parent().Pkg)
		}
		return &TupleV{}
	}
	// sync.Map with string keys
	intrinsics["(*sync.Map).Load"] = func(e *Exec, a []Value, s *ssa.CallCommon) Value {
		m := e.syncMapOf(a[0])
		idx, found := e.mapFind(m, syncKey(e, a[1]))
		if found {
			return &TupleV{E: []Value{e.loadCell(m.vals[idx]), e.tb.True()}}
		}
		return &TupleV{E: []Value{&IfaceV{}, e.tb.False()}}
	}
	intrinsics["(*sync.Map).Store"] = func(e *Exec, a []Value, s *ssa.CallCommon) Value {
		m := e.syncMapOf(a[0])
		e.mapUpdate(&MapV{m: m}, syncKey(e, a[1]), a[2])
		return &TupleV{}
	}
	intrinsics["(*sync.Map).LoadOrStore"] = func(e *Exec, a []Value, s *ssa.CallCommon) Value {
		m := e.syncMapOf(a[0])
		k := syncKey(e, a[1])
		idx, found := e.mapFind(m, k)
		if found {
			return &TupleV{E: []Value{e.loadCell(m.vals[idx]), e.tb.True()}}
		}
		e.mapUpdate(&MapV{m: m}, k, a[2])
		return &TupleV{E: []Value{a[2], e.tb.False()}}
	}
	intrinsics["(*sync.Map).Delete"] = func(e *Exec, a []Value, s *ssa.CallCommon) Value {
		m := e.syncMapOf(a[0])
		e.mapDelete(&MapV{m: m}, syncKey(e, a[1]))
		return &TupleV{}
	}
}

func syncKey(e *Exec, k Value) Value {
	iv, ok := k.(*IfaceV)
	if !ok {
		panic(e.unsupported("sync.Map key that is not an interface value"))
	}
	sv, ok := iv.v.(*StrV)
	if !ok {
		panic(e.unsupported("sync.Map key that is not a string"))
	}
	return sv
}

func (e *Exec) syncMapOf(p Value) *MapObj {
	pv := p.(*PtrV)
	if pv.c == nil {
		e.nilDeref()
	}
	ms, _ := e.opaque["syncmaps"].(map[*Cell]*MapObj)
	if ms == nil {
		ms = map[*Cell]*MapObj{}
		e.opaque["syncmaps"] = ms
	}
	m := ms[pv.c]
	if m == nil {
		any := types.NewInterfaceType(nil, nil)
		m = &MapObj{kt: types.Typ[types.String], vt: any, obj: pv.c.obj}
		ms[pv.c] = m
	}
	return m
}

func firstU32Leaf(c *Cell) *Cell {
	if c.kids != nil {
		for _, k := range c.kids {
			if l := firstU32Leaf(k); l != nil {
				return l
			}
		}
		return nil
	}
	if c.arr != nil {
		return nil
	}
	if b, ok := c.typ.Underlying().(*types.Basic); ok && b.Kind() == types.Uint32 {
		return c
	}
	return nil
}

// protectPackageState marks everything the package's own variables reach as shared (see ensureInit).
func (e *Exec) protectPackageState(p *ssa.Package) {
	for _, m := range p.Members {
		g, ok := m.(*ssa.Global)
		if !ok || strings.HasPrefix(g.Name(), "verif") {
			continue
		}
		c := e.globals[g]
		if c == nil {
			continue
		}
		e.walkCell(c, func(o *Obj) {
			if o != nil && o.kind == "alloc" {
				o.prot = true
			}
		}, map[*Cell]bool{})
	}
}

// ---------- strings.Builder, bytealg ----------

func init() {
	// strings.Builder: the text written so far (its own implementation goes through unsafe)
	cur := func(e *Exec, p Value) (*Cell, *StrV) {
		pv := p.(*PtrV)
		if pv.c == nil {
			e.nilDeref()
		}
		bs, _ := e.opaque["builders"].(map[*Cell]*StrV)
		if bs == nil {
			bs = map[*Cell]*StrV{}
			e.opaque["builders"] = bs
		}
		s := bs[pv.c]
		if s == nil {
			s = e.constString("")
		}
		return pv.c, s
	}
	set := func(e *Exec, c *Cell, s *StrV) { e.opaque["builders"].(map[*Cell]*StrV)[c] = s }
	sliceToStr := func(e *Exec, x *SliceV) *StrV {
		if x.arr == nil {
			return e.constString("")
		}
		if !x.len.IsConst() && x.off.IsConst() {
			r := e.mkString(e.windowBytes(x.arr, int(x.off.val)))
			r.len = x.len
			return r
		}
		bs := e.sliceBytes(x)
		if len(bs) == 0 {
			return e.constString("")
		}
		return e.mkString(bs)
	}
	intrinsics["(*strings.Builder).WriteString"] = func(e *Exec, a []Value, s *ssa.CallCommon) Value {
		c, cs := cur(e, a[0])
		set(e, c, e.strConcat(cs, a[1].(*StrV)).(*StrV))
		return &TupleV{E: []Value{e.tb.Resize(a[1].(*StrV).len, 64, false), &IfaceV{}}}
	}
	intrinsics["(*strings.Builder).WriteByte"] = func(e *Exec, a []Value, s *ssa.CallCommon) Value {
		c, cs := cur(e, a[0])
		set(e, c, e.strConcat(cs, e.mkString([]*Term{a[1].(*Term)})).(*StrV))
		return &IfaceV{}
	}
	intrinsics["(*strings.Builder).Write"] = func(e *Exec, a []Value, s *ssa.CallCommon) Value {
		c, cs := cur(e, a[0])
		p := a[1].(*SliceV)
		set(e, c, e.strConcat(cs, sliceToStr(e, p)).(*StrV))
		return &TupleV{E: []Value{p.len, &IfaceV{}}}
	}
	intrinsics["(*strings.Builder).WriteRune"] = func(e *Exec, a []Value, s *ssa.CallCommon) Value {
		r := a[1].(*Term)
		if !r.IsConst() || r.val >= 0x80 {
			panic(e.unsupported("strings.Builder.WriteRune of a symbolic or non-ASCII rune"))
		}
		c, cs := cur(e, a[0])
		set(e, c, e.strConcat(cs, e.constString(string(rune(r.val)))).(*StrV))
		return &TupleV{E: []Value{e.c64(1), &IfaceV{}}}
	}
	intrinsics["(*strings.Builder).String"] = func(e *Exec, a []Value, s *ssa.CallCommon) Value {
		_, cs := cur(e, a[0])
		return cs
	}
	intrinsics["(*strings.Builder).Len"] = func(e *Exec, a []Value, s *ssa.CallCommon) Value {
		_, cs := cur(e, a[0])
		return cs.len
	}
	intrinsics["(*strings.Builder).Grow"] = func(e *Exec, a []Value, s *ssa.CallCommon) Value {
		n := a[1].(*Term)
		if e.branch(e.tb.Slt(n, e.c64(0)), "Builder.Grow-negative") {
			panic(&goPanic{val: e.constString("strings.Builder.Grow: negative count"), site: e.site()})
		}
		return &TupleV{}
	}
	intrinsics["(*strings.Builder).Reset"] = func(e *Exec, a []Value, s *ssa.CallCommon) Value {
		c, _ := cur(e, a[0])
		set(e, c, e.constString(""))
		return &TupleV{}
	}
	// assembly-backed byte search
	intrinsics["internal/bytealg.IndexByteString"] = inIndexByte
	intrinsics["internal/bytealg.IndexByte"] = func(e *Exec, a []Value, s *ssa.CallCommon) Value {
		bs := e.sliceBytes(a[0].(*SliceV))
		c := a[1].(*Term)
		for i, b := range bs {
			if e.branch(e.tb.Eq(b, c), "indexbyte") {
				return e.c64(int64(i))
			}
		}
		return e.tb.Const(64, ^uint64(0))
	}
	intrinsics["internal/bytealg.CountString"] = func(e *Exec, a []Value, s *ssa.CallCommon) Value {
		bs := e.strBytes(a[0].(*StrV))
		c := a[1].(*Term)
		n := e.c64(0)
		for _, b := range bs {
			n = e.tb.Add(n, e.tb.Ite(e.tb.Eq(b, c), e.c64(1), e.c64(0)))
		}
		return n
	}
	intrinsics["internal/bytealg.IndexString"] = func(e *Exec, a []Value, s *ssa.CallCommon) Value {
		hs, ns := e.strBytes(a[0].(*StrV)), e.strBytes(a[1].(*StrV))
		for i := 0; i+len(ns) <= len(hs); i++ {
			eq := e.tb.True()
			for j := range ns {
				eq = e.tb.And(eq, e.tb.Eq(hs[i+j], ns[j]))
			}
			if e.branch(eq, "indexstring") {
				return e.c64(int64(i))
			}
		}
		return e.tb.Const(64, ^uint64(0))
	}
}
