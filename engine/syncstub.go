package main

// Contracts of package sync beyond Pool and the mutexes: Once, Map (string keys), and the
// bodyless sync/atomic primitives (sequential semantics: schedules are not explored).

import (
	"go/types"
	"strings"

	"golang.org/x/tools/go/ssa"
)

func init() { registerSyncIntrinsics() }

func registerSyncIntrinsics() {
	// sync/atomic on integers: plain loads and stores
	for _, t := range []string{"Int32", "Int64", "Uint32", "Uint64", "Uintptr"} {
		t := t
		intrinsics["sync/atomic.Load"+t] = func(e *Exec, a []Value, s *ssa.CallCommon) Value { return e.load(a[0]) }
		intrinsics["sync/atomic.Store"+t] = func(e *Exec, a []Value, s *ssa.CallCommon) Value {
			e.store(a[0], a[1])
			return &TupleV{}
		}
		intrinsics["sync/atomic.Add"+t] = func(e *Exec, a []Value, s *ssa.CallCommon) Value {
			nv := e.tb.Add(e.load(a[0]).(*Term), a[1].(*Term))
			e.store(a[0], nv)
			return nv
		}
		intrinsics["sync/atomic.Swap"+t] = func(e *Exec, a []Value, s *ssa.CallCommon) Value {
			old := e.load(a[0])
			e.store(a[0], a[1])
			return old
		}
		intrinsics["sync/atomic.CompareAndSwap"+t] = func(e *Exec, a []Value, s *ssa.CallCommon) Value {
			cur := e.load(a[0]).(*Term)
			if e.branch(e.tb.Eq(cur, a[1].(*Term)), "atomic.CAS") {
				e.store(a[0], a[2])
				return e.tb.True()
			}
			return e.tb.False()
		}
	}
	// sync.Once: the function runs at the first Do of this Once value; what it allocates and
	// stores is initialisation of package state (like a package initialiser run lazily)
	intrinsics["(*sync.Once).Do"] = func(e *Exec, a []Value, s *ssa.CallCommon) Value {
		p := a[0].(*PtrV)
		if p.c == nil {
			e.nilDeref()
		}
		leaf := firstU32Leaf(p.c)
		if leaf == nil {
			panic(e.unsupported("sync.Once layout"))
		}
		if t, ok := leaf.v.(*Term); ok && t.IsConst() && t.val != 0 {
			return &TupleV{}
		}
		e.storeTrail(leaf, e.tb.Const(32, 1))
		f, _ := a[1].(*FuncV)
		if f == nil {
			panic(&goPanic{val: e.runtimeError("invalid memory address or nil pointer dereference"), site: e.site()})
		}
		saveEpoch := e.epoch
		e.epoch = 0
		e.opaque["ininit"] = e.opaque["ininit"].(int) + 1
		func() {
			defer func() {
				e.opaque["ininit"] = e.opaque["ininit"].(int) - 1
				e.epoch = saveEpoch
			}()
			e.call(f, nil, nil)
		}()
		if f.fn != nil && f.fn.Pkg != nil {
			e.protectPackageState(f.fn.Pkg)
		} else if f.fn != nil && f.fn.Parent() != nil && f.fn.Parent().Pkg != nil {
			e.protectPackageState(f.fn.Parent().Pkg)
		}
		return &TupleV{}
	}
	// sync.Map with string keys
	intrinsics["(*sync.Map).Load"] = func(e *Exec, a []Value, s *ssa.CallCommon) Value {
		m := e.syncMapOf(a[0])
		idx, found := e.mapFind(m, syncKey(e, a[1]))
		if found {
			return &TupleV{E: []Value{e.loadCell(m.vals[idx]), e.tb.True()}}
		}
		return &TupleV{E: []Value{&IfaceV{}, e.tb.False()}}
	}
	intrinsics["(*sync.Map).Store"] = func(e *Exec, a []Value, s *ssa.CallCommon) Value {
		m := e.syncMapOf(a[0])
		e.mapUpdate(&MapV{m: m}, syncKey(e, a[1]), a[2])
		return &TupleV{}
	}
	intrinsics["(*sync.Map).LoadOrStore"] = func(e *Exec, a []Value, s *ssa.CallCommon) Value {
		m := e.syncMapOf(a[0])
		k := syncKey(e, a[1])
		idx, found := e.mapFind(m, k)
		if found {
			return &TupleV{E: []Value{e.loadCell(m.vals[idx]), e.tb.True()}}
		}
		e.mapUpdate(&MapV{m: m}, k, a[2])
		return &TupleV{E: []Value{a[2], e.tb.False()}}
	}
	intrinsics["(*sync.Map).Delete"] = func(e *Exec, a []Value, s *ssa.CallCommon) Value {
		m := e.syncMapOf(a[0])
		e.mapDelete(&MapV{m: m}, syncKey(e, a[1]))
		return &TupleV{}
	}
}

func syncKey(e *Exec, k Value) Value {
	iv, ok := k.(*IfaceV)
	if !ok {
		panic(e.unsupported("sync.Map key that is not an interface value"))
	}
	sv, ok := iv.v.(*StrV)
	if !ok {
		panic(e.unsupported("sync.Map key that is not a string"))
	}
	return sv
}

func (e *Exec) syncMapOf(p Value) *MapObj {
	pv := p.(*PtrV)
	if pv.c == nil {
		e.nilDeref()
	}
	ms, _ := e.opaque["syncmaps"].(map[*Cell]*MapObj)
	if ms == nil {
		ms = map[*Cell]*MapObj{}
		e.opaque["syncmaps"] = ms
	}
	m := ms[pv.c]
	if m == nil {
		any := types.NewInterfaceType(nil, nil)
		m = &MapObj{kt: types.Typ[types.String], vt: any, obj: pv.c.obj}
		ms[pv.c] = m
	}
	return m
}

func firstU32Leaf(c *Cell) *Cell {
	if c.kids != nil {
		for _, k := range c.kids {
			if l := firstU32Leaf(k); l != nil {
				return l
			}
		}
		return nil
	}
	if c.arr != nil {
		return nil
	}
	if b, ok := c.typ.Underlying().(*types.Basic); ok && b.Kind() == types.Uint32 {
		return c
	}
	return nil
}

// protectPackageState marks everything the package's own variables reach as shared (see ensureInit).
func (e *Exec) protectPackageState(p *ssa.Package) {
	for _, m := range p.Members {
		g, ok := m.(*ssa.Global)
		if !ok || strings.HasPrefix(g.Name(), "verif") {
			continue
		}
		c := e.globals[g]
		if c == nil {
			continue
		}
		e.walkCell(c, func(o *Obj) {
			if o != nil && o.kind == "alloc" {
				o.prot = true
			}
		}, map[*Cell]bool{})
	}
}
