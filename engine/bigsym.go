package main

// Contract of math/big for ParseDecimalChallengeRFC6287 (C17): (*Int).SetString(s, 10)
// succeeds exactly on an optional sign followed by one or more decimal digits and yields
// an integer N; (*Int).Text(16) renders N as lower-case hexadecimal text without leading zeros
// (a "-" first when N < 0).  The decimal->binary conversion itself is NOT modelled: the hex
// digits of N are fresh symbolic hex digits x_0..x_{h-1} (x_0 != 0 unless h == 1), with h taken
// from the harness case "hexlen".  Results therefore hold for every value N could have.

type bigSym struct {
	hexDigits []*Term // lower-case ASCII hex digits, most significant first
	negative  *Term
}

func (e *Exec) bigSetStringSym(z *PtrV, s *StrV, base int) Value {
	if base != 10 {
		panic(e.unsupported("big.Int.SetString symbolic with base != 10"))
	}
	tb := e.tb
	bs := e.strBytes(s)
	if len(bs) == 0 {
		return &TupleV{E: []Value{&PtrV{}, tb.False()}}
	}
	isDigit := func(c *Term) *Term { return tb.And(tb.Ule(tb.Const(8, '0'), c), tb.Ule(c, tb.Const(8, '9'))) }
	sign := tb.Or(tb.Eq(bs[0], tb.Const(8, '+')), tb.Eq(bs[0], tb.Const(8, '-')))
	valid := tb.True()
	for i, c := range bs {
		if i == 0 {
			if len(bs) > 1 {
				valid = tb.And(valid, tb.Or(isDigit(c), sign))
			} else {
				valid = tb.And(valid, isDigit(c))
			}
			continue
		}
		valid = tb.And(valid, isDigit(c))
	}
	if !e.branch(valid, "big.SetString-valid") {
		return &TupleV{E: []Value{&PtrV{}, tb.False()}}
	}
	h := int(e.caseVal("hexlen"))
	ds := make([]*Term, h)
	for i := range ds {
		d := e.freshVar("bighex", 8)
		ds[i] = d
		isHex := tb.Or(isDigit(d), tb.And(tb.Ule(tb.Const(8, 'a'), d), tb.Ule(d, tb.Const(8, 'f'))))
		e.addPCKind(isHex, 'a')
		if i == 0 && h > 1 {
			e.addPCKind(tb.Ne(d, tb.Const(8, '0')), 'a')
		}
	}
	neg := tb.Eq(bs[0], tb.Const(8, '-'))
	e.bigInts[z.c] = &bigVal{sym: &bigSym{hexDigits: ds, negative: neg}}
	e.opaque["lastbig"] = e.bigInts[z.c].sym
	return &TupleV{E: []Value{z, tb.True()}}
}

func (e *Exec) bigTextSym(b *bigSym, base int) Value {
	if base != 16 {
		panic(e.unsupported("big.Int.Text symbolic with base != 16"))
	}
	// "-" prefix for negative non-zero values: decided per path
	isZero := e.tb.And(e.tb.Bool(len(b.hexDigits) == 1), e.tb.Eq(b.hexDigits[0], e.tb.Const(8, '0')))
	if e.branch(e.tb.And(b.negative, e.tb.Not(isZero)), "big.Text-negative") {
		return e.mkString(append([]*Term{e.tb.Const(8, '-')}, b.hexDigits...))
	}
	return e.mkString(append([]*Term{}, b.hexDigits...))
}
