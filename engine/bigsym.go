package main

// Symbolic contract for math/big used by ParseDecimalChallengeRFC6287 (C17): filled in with C17.
type bigSym struct {
	hexDigits []*Term // most significant first
	valid     *Term
}

func (e *Exec) bigSetStringSym(z *PtrV, s *StrV, base int) Value {
	panic(e.unsupported("big.Int.SetString on symbolic text (contract not enabled)"))
}

func (e *Exec) bigTextSym(b *bigSym, base int) Value {
	panic(e.unsupported("big.Int.Text on symbolic value"))
}
