package main

// Contract of math/big for ParseDecimalChallengeRFC6287 (C17): (*Int).SetString(s, 10)
// succeeds exactly on an optional sign followed by one or more decimal digits and yields
// an integer N; (*Int).Text(16) renders N as lower-case hexadecimal text without leading zeros
// (a "-" first when N < 0).  The decimal->binary conversion itself is NOT modelled: the hex
// digits of N are fresh symbolic hex digits x_0..x_{h-1} (x_0 != 0 unless h == 1), with h taken
// from the harness case "hexlen".  Results therefore hold for every value N could have.

type bigSym struct {
	hexDigits []*Term // lower-case ASCII hex digits, most significant first
	negative  *Term
}

func (e *Exec) bigSetStringSym(z *PtrV, s *StrV, base int) Value {
	if base != 10 && base != 0 {
		panic(e.unsupported("big.Int.SetString symbolic with base other than 10 or 0"))
	}
	tb := e.tb
	bs := e.strBytes(s)
	if len(bs) == 0 {
		return &TupleV{E: []Value{&PtrV{}, tb.False()}}
	}
	isDigit := func(c *Term) *Term { return tb.And(tb.Ule(tb.Const(8, '0'), c), tb.Ule(c, tb.Const(8, '9'))) }
	if base == 0 {
		return e.bigSetStringBase0(z, bs, isDigit)
	}
	sign := tb.Or(tb.Eq(bs[0], tb.Const(8, '+')), tb.Eq(bs[0], tb.Const(8, '-')))
	valid := tb.True()
	for i, c := range bs {
		if i == 0 {
			if len(bs) > 1 {
				valid = tb.And(valid, tb.Or(isDigit(c), sign))
			} else {
				valid = tb.And(valid, isDigit(c))
			}
			continue
		}
		valid = tb.And(valid, isDigit(c))
	}
	if !e.branch(valid, "big.SetString-valid") {
		return &TupleV{E: []Value{&PtrV{}, tb.False()}}
	}
	if pre, _ := e.opaque["bigpreset"].(map[*Arr][]*Term); pre != nil && pre[s.arr] != nil {
		// the harness stated the number by its hexadecimal digits (verifDecimalOf)
		e.bigInts[z.c] = &bigVal{sym: &bigSym{hexDigits: pre[s.arr], negative: tb.False()}}
		e.opaque["lastbig"] = e.bigInts[z.c].sym
		return &TupleV{E: []Value{z, tb.True()}}
	}
	h := int(e.caseVal("hexlen"))
	ds := make([]*Term, h)
	for i := range ds {
		d := e.freshVar("bighex", 8)
		ds[i] = d
		isHex := tb.Or(isDigit(d), tb.And(tb.Ule(tb.Const(8, 'a'), d), tb.Ule(d, tb.Const(8, 'f'))))
		e.addPCKind(isHex, 'a')
		if i == 0 && h > 1 {
			e.addPCKind(tb.Ne(d, tb.Const(8, '0')), 'a')
		}
	}
	neg := tb.Eq(bs[0], tb.Const(8, '-'))
	e.bigInts[z.c] = &bigVal{sym: &bigSym{hexDigits: ds, negative: neg}}
	e.opaque["lastbig"] = e.bigInts[z.c].sym
	return &TupleV{E: []Value{z, tb.True()}}
}

func (e *Exec) bigTextSym(b *bigSym, base int) Value {
	if base != 16 {
		panic(e.unsupported("big.Int.Text symbolic with base != 16"))
	}
	// "-" prefix for negative non-zero values: decided per path
	isZero := e.tb.And(e.tb.Bool(len(b.hexDigits) == 1), e.tb.Eq(b.hexDigits[0], e.tb.Const(8, '0')))
	if e.branch(e.tb.And(b.negative, e.tb.Not(isZero)), "big.Text-negative") {
		return e.mkString(append([]*Term{e.tb.Const(8, '-')}, b.hexDigits...))
	}
	return e.mkString(append([]*Term{}, b.hexDigits...))
}

// base 0 (prefix-selected base, documented for SetString): "0x"/"0b"/"0o" prefixes select
// hexadecimal / binary / octal, a leading "0" alone selects octal, underscores may separate
// digits.  Modelled exactly for texts without prefix letters and underscores (leading zero =>
// only octal digits are valid); texts with a prefix letter or underscore: validity left open.
func (e *Exec) bigSetStringBase0(z *PtrV, bs []*Term, isDigit func(*Term) *Term) Value {
	tb := e.tb
	start := 0
	sign := tb.Or(tb.Eq(bs[0], tb.Const(8, '+')), tb.Eq(bs[0], tb.Const(8, '-')))
	if len(bs) > 1 && e.branch(sign, "big.SetString-sign") {
		start = 1
	}
	rest := bs[start:]
	special := tb.False()
	for _, c := range rest {
		for _, k := range []byte("xXbBoO_") {
			special = tb.Or(special, tb.Eq(c, tb.Const(8, uint64(k))))
		}
	}
	var valid *Term
	if !special.IsFalse() && e.branch(special, "big.SetString-prefix-or-underscore") {
		valid = e.freshVar("big_base0_valid", 0)
	} else {
		valid = tb.True()
		for _, c := range rest {
			valid = tb.And(valid, isDigit(c))
		}
		if len(rest) > 1 {
			octal := tb.True()
			for _, c := range rest[1:] {
				octal = tb.And(octal, tb.Ule(c, tb.Const(8, '7')))
			}
			valid = tb.And(valid, tb.Implies(tb.Eq(rest[0], tb.Const(8, '0')), octal))
		}
	}
	if !e.branch(valid, "big.SetString-valid") {
		return &TupleV{E: []Value{&PtrV{}, tb.False()}}
	}
	h := int(e.caseVal("hexlen"))
	ds := make([]*Term, h)
	for i := range ds {
		d := e.freshVar("bighex", 8)
		ds[i] = d
		e.addPCKind(tb.Or(isDigit(d), tb.And(tb.Ule(tb.Const(8, 'a'), d), tb.Ule(d, tb.Const(8, 'f')))), 'a')
		if i == 0 && h > 1 {
			e.addPCKind(tb.Ne(d, tb.Const(8, '0')), 'a')
		}
	}
	e.bigInts[z.c] = &bigVal{sym: &bigSym{hexDigits: ds, negative: tb.Eq(bs[0], tb.Const(8, '-'))}}
	e.opaque["lastbig"] = e.bigInts[z.c].sym
	return &TupleV{E: []Value{z, tb.True()}}
}
