package main

// Path enumeration by re-execution with decision prefixes.

import (
	"fmt"
	"runtime/debug"
	"sort"
	"strings"
	"time"

	"golang.org/x/tools/go/ssa"
)

type PathResult struct {
	No        int      `json:"no"`
	Outcome   string   `json:"outcome"` // complete | infeasible | unwind | unsupported | internal | bound | steps | panic | violated
	Msg       string   `json:"msg,omitempty"`
	Steps     int      `json:"steps"`
	Decisions int      `json:"decisions"`
	Notes     []string `json:"notes,omitempty"`
}

type Violation struct {
	Harness  string            `json:"harness"`
	Cases    map[string]int64  `json:"cases"`
	Name     string            `json:"name"`
	Path     int               `json:"path"`
	Model    map[string]uint64 `json:"model"`
	Digests  [][]int           `json:"digests,omitempty"`
	Detail   string            `json:"detail,omitempty"`
	Replay   string            `json:"replay,omitempty"`
	Replayed string            `json:"replayed,omitempty"` // confirmed | not-reproduced | error | skipped
	Known    string            `json:"known,omitempty"`
}

type CaseResult struct {
	Harness     string                  `json:"harness"`
	Cases       map[string]int64        `json:"cases"`
	Paths       []PathResult            `json:"-"`
	NPaths      int                     `json:"paths"`
	Complete    int                     `json:"complete_paths"`
	Steps       int                     `json:"ssa_instructions"`
	Obligations []*Obligation           `json:"-"`
	NOblig      int                     `json:"obligations"`
	Proved      int                     `json:"proved"`
	Folded      int                     `json:"folded"`
	Unknown     []string                `json:"undischarged,omitempty"`
	Violations  []*Violation            `json:"violations,omitempty"`
	Undecided   []string                `json:"undecided_paths,omitempty"`
	Notes       []string                `json:"notes,omitempty"`
	Funcs       map[string]int          `json:"-"`
	Intrinsics  map[string]bool         `json:"-"`
	Solver      map[string]*BackendStat `json:"solver"`
	WallS       float64                 `json:"wall_s"`
	Witness     map[string]uint64       `json:"witness,omitempty"` // model of one complete path (reachability twin)
	WitnessDig  [][]int                 `json:"witness_digests,omitempty"`
	WitnessObs  map[string]string       `json:"witness_observes,omitempty"`
	Samples     []map[string]any        `json:"-"`
	PanicsSeen  []string                `json:"panics_caught,omitempty"`
	EngineError string                  `json:"engine_error,omitempty"`
	Skipped     bool                    `json:"skipped,omitempty"`
}

type HarnessSpec struct {
	Prop    string
	Name    string
	Fn      *ssa.Function
	Pkg     string               // "otp" | "api" | "wasm"
	Cases   map[string][]CaseDim // tier -> dims
	Replace map[string]string
	Opts    map[string]string
	File    string
}

type CaseDim struct {
	Name string
	Vals []int64
}

func newExec(prog *ssa.Program, cfg Config, sol *Portfolio) *Exec {
	e := &Exec{
		prog: prog, tb: NewTB(), sol: sol, cfg: cfg,
		globals: map[*ssa.Global]*Cell{}, initDone: map[*ssa.Package]bool{},
		strConsts: map[string]*StrV{}, nondetSeq: map[string]int{},
		poolState: map[*Cell][]Value{}, funcsSeen: map[*ssa.Function]bool{},
		intrinUsed: map[string]bool{}, opaque: map[string]interface{}{},
		replaceFn: map[string]*ssa.Function{},
		decStr:    map[*Arr]decInfo{}, strMeta: map[*Arr]*fmtRecord{}, strPieces: map[*Arr][]*StrV{}, symCache: map[int][]string{}, bigInts: map[*Cell]*bigVal{}, absMemo: map[int]*Term{}, valuesMeta: map[*Arr]*valuesSnap{}, urlMeta: map[*Arr][]*StrV{},
	}
	e.resetOpaque()
	return e
}

func (e *Exec) resetOpaque() {
	e.opaque["boundhits"] = []string{}
	e.opaque["ininit"] = 0
	e.opaque["poolgets"] = 0
	e.opaque["randcalls"] = 0
	e.opaque["idxterms"] = []*Term{}
	e.opaque["pathno"] = 0
	delete(e.opaque, "tracing")
	delete(e.opaque, "modeldigests")
	delete(e.opaque, "hmacmemo")
	delete(e.opaque, "lastbig")
	delete(e.opaque, "bigpreset")
	delete(e.opaque, "builders")
	delete(e.opaque, "pooladv")
	delete(e.opaque, "randfail")
	delete(e.opaque, "deferOwner")
}

func (e *Exec) resetPath(dec []int64, no int) {
	e.rollback()
	cross := e.opaque["crosscheck"]
	e.resetOpaque()
	e.opaque["crosscheck"] = cross
	e.opaque["pathno"] = no
	if e.cfg.HMACFresh {
		e.opaque["hmacfresh"] = true
	}
	e.pc = nil
	e.jsVals = nil
	e.jsGlobals = nil
	e.httpStates = map[*Cell]*httpState{}
	e.bodyOwner = map[*Arr]*httpState{}
	e.jsonVals = map[*Arr]*IfaceV{}
	e.traceClass = ""
	e.randStreams = nil
	e.randLens = nil
	e.pcKind = nil
	e.decisions = dec
	e.decPos = 0
	e.alts = nil
	e.steps = 0
	e.nondetSeq = map[string]int{}
	e.nondets = nil
	e.depth = 0
	e.hmacCalls = nil
	e.obligs = nil
	e.observes = nil
	e.writes = nil
	e.traceEv = nil
	e.poolState = map[*Cell][]Value{}
	e.notes = nil
	e.curFrame = nil
	e.epoch = 0
	e.panicsSeen = nil
	e.varTime = nil
	e.prefers = nil
	e.bigInts = map[*Cell]*bigVal{}
	e.trailOn = true
}

// runPath executes the harness once along the given decision prefix.
func (e *Exec) runPath(fn *ssa.Function, dec []int64, no int) (pr PathResult) {
	e.resetPath(dec, no)
	pr.No = no
	defer func() {
		pr.Steps = e.steps
		pr.Decisions = len(e.decisions)
		pr.Notes = e.notes
		if r := recover(); r != nil {
			switch x := r.(type) {
			case pathAbort:
				pr.Outcome = x.kind
				pr.Msg = x.msg
			case *goPanic:
				pr.Outcome = "panic"
				pr.Msg = x.site + ": " + e.panicText(x.val)
			default:
				pr.Outcome = "internal"
				pr.Msg = fmt.Sprintf("engine panic: %v\n%s", r, firstN(string(debug.Stack()), 1800))
			}
		}
	}()
	if fn.Pkg != nil {
		e.trailOn = false
		e.ensureInit(fn.Pkg)
		e.trailOn = true
	}
	e.call(&FuncV{fn: fn}, nil, nil)
	pr.Outcome = "complete"
	return pr
}

func (e *Exec) ensureInitNoTrail(p *ssa.Package) {
	save := e.trailOn
	e.trailOn = false
	e.ensureInit(p)
	e.trailOn = save
}

// exploreCase runs all paths of one harness instance.
func exploreCase(prog *ssa.Program, hs *HarnessSpec, cases map[string]int64, base Config, maxPaths int, cross bool) *CaseResult {
	t0 := time.Now()
	cfg := base
	cfg.Cases = cases
	sol := NewPortfolio()
	defer sol.Close()
	e := newExec(prog, cfg, sol)
	e.opaque["crosscheck"] = cross
	e.harnessPkg = hs.Fn.Pkg
	for from, to := range hs.Replace {
		var stub *ssa.Function
		for _, p := range prog.AllPackages() {
			if f := p.Func(to); f != nil && (p == hs.Fn.Pkg || stub == nil) {
				stub = f
			}
		}
		if stub == nil {
			return &CaseResult{Harness: hs.Name, Cases: cases, EngineError: "replace target stub not found: " + to}
		}
		e.replaceFn[from] = stub
	}
	res := &CaseResult{Harness: hs.Name, Cases: cases, Funcs: map[string]int{}, Intrinsics: map[string]bool{}}
	stack := [][]int64{{}}
	no := 0
	var traced []tracedPath
	for len(stack) > 0 {
		dec := stack[len(stack)-1]
		stack = stack[:len(stack)-1]
		if !deadline.IsZero() && time.Now().After(deadline) {
			res.Notes = append(res.Notes, fmt.Sprintf("TIME BUDGET exhausted; %d path prefixes unexplored", len(stack)+1))
			res.Undecided = append(res.Undecided, "time budget exhausted before all paths were explored")
			break
		}
		if no >= maxPaths {
			res.Notes = append(res.Notes, fmt.Sprintf("PATH LIMIT %d reached; %d prefixes unexplored", maxPaths, len(stack)+1))
			res.Undecided = append(res.Undecided, "path limit reached")
			break
		}
		pr := e.runPath(hs.Fn, dec, no)
		no++
		res.Paths = append(res.Paths, pr)
		res.Steps += pr.Steps
		if e.traceClass != "" && pr.Outcome == "complete" {
			traced = append(traced, tracedPath{no: pr.No, class: e.traceClass, trace: strings.Join(e.traceEv, " "), pc: append([]*Term{}, e.pc...), want: e.wantTerms(), nondets: append([]*Term{}, e.nondets...)})
			nv := len(res.Violations)
			e.traceTwoSafety(hs, cases, traced, len(traced)-1, res, sol)
			if len(res.Violations) > nv && hs.Opts["stop_on_violation"] != "" {
				res.Notes = append(res.Notes, "exploration of this instance stopped at the first trace violation")
				no++
				break
			}
		}
		for i := len(e.alts) - 1; i >= 0; i-- {
			stack = append(stack, e.alts[i])
		}
		for _, n := range pr.Notes {
			res.Notes = appendUniq(res.Notes, n)
		}
		res.PanicsSeen = append(res.PanicsSeen, e.panicsSeen...)
		for _, ob := range e.obligs {
			res.Obligations = append(res.Obligations, ob)
			switch ob.Status {
			case "proved":
				res.Proved++
			case "folded":
				res.Folded++
			case "unknown":
				res.Unknown = append(res.Unknown, fmt.Sprintf("%s (path %d): %s", ob.Name, ob.Path, ob.Note))
			case "violated":
				res.Violations = append(res.Violations, &Violation{Harness: hs.Name, Cases: cases, Name: ob.Name, Path: ob.Path, Model: ob.Model, Digests: ob.Digests})
			case "skipped":
				res.Notes = appendUniq(res.Notes, "further indices of an already violated per-byte assertion were not decided individually")
			}
		}
		switch pr.Outcome {
		case "complete":
			res.Complete++
			if res.Witness == nil {
				// reachability twin: the final path condition must be satisfiable
				r := sol.Prove(e.tb, e.pcWith(), e.wantTerms(), cfg.ProveTimeout)
				if r.Status == "sat" {
					res.Witness = e.namedModel(r.Model)
					res.WitnessDig = e.digestsFromModel(r.Model)
					res.WitnessObs = map[string]string{}
					env := map[string]uint64{}
					for _, t := range e.nondets {
						env[t.name] = r.Model[t.ref()]
					}
					for _, o := range e.observes {
						res.WitnessObs[o.Name] = e.renderValue(o.Val, env, r.Model)
					}
				}
			}
		case "infeasible":
		case "skipped":
			res.Skipped = true
		case "violated":
		case "panic":
			// an uncaught Go panic reached the top of the harness: a violation with a model of the path
			v := &Violation{Harness: hs.Name, Cases: cases, Name: "uncaught-panic", Path: pr.No, Detail: pr.Msg}
			r := sol.Prove(e.tb, e.pcWith(), e.wantTerms(), cfg.ProveTimeout)
			if r.Status == "sat" {
				v.Model = e.namedModel(r.Model)
				v.Digests = e.digestsFromModel(r.Model)
				res.Violations = append(res.Violations, v)
			} else if r.Status == "unsat" {
				// path was kept on an unknown feasibility answer and is in fact infeasible
			} else {
				res.Undecided = append(res.Undecided, fmt.Sprintf("path %d: panic path of unknown feasibility: %s", pr.No, pr.Msg))
			}
		case "internal":
			res.EngineError = fmt.Sprintf("path %d: %s", pr.No, pr.Msg)
			res.Undecided = append(res.Undecided, fmt.Sprintf("path %d: %s: %s", pr.No, pr.Outcome, firstN(pr.Msg, 200)))
		case "unwind":
			if hs.Opts["unwind_is_violation"] != "" {
				// the harness declares that no loop may run longer than the unwinding bound
				// (work bounded independent of argument values): a feasible path that does is a violation
				v := &Violation{Harness: hs.Name, Cases: cases, Name: "unwinding-bound", Path: pr.No, Detail: pr.Msg}
				as := e.pcWith()
				r := sol.Prove(e.tb, append(as, e.prefers...), e.wantTerms(), cfg.ProveTimeout)
				if r.Status != "sat" {
					r = sol.Prove(e.tb, as, e.wantTerms(), cfg.ProveTimeout)
				}
				if r.Status == "sat" {
					v.Model = e.namedModel(r.Model)
					v.Digests = e.digestsFromModel(r.Model)
					res.Violations = append(res.Violations, v)
					break
				}
			}
			res.Undecided = append(res.Undecided, fmt.Sprintf("path %d: %s: %s", pr.No, pr.Outcome, firstN(pr.Msg, 300)))
		case "unsupported":
			// the code under test uses something the encoder does not model: nothing can be claimed
			// for this harness instance (never a pass; a reduced bound would hide a change that moves
			// the code out of the encodable fragment)
			if res.EngineError == "" {
				res.EngineError = fmt.Sprintf("path %d: not encodable: %s", pr.No, firstN(pr.Msg, 300))
			}
			res.Undecided = append(res.Undecided, fmt.Sprintf("path %d: %s: %s", pr.No, pr.Outcome, firstN(pr.Msg, 300)))
		default: // bound, steps
			res.Undecided = append(res.Undecided, fmt.Sprintf("path %d: %s: %s", pr.No, pr.Outcome, firstN(pr.Msg, 300)))
		}
		if len(res.Samples) < 3 && pr.Outcome == "complete" {
			res.Samples = append(res.Samples, map[string]any{
				"harness": hs.Name, "cases": cases, "path": pr.No, "decisions": pr.Decisions, "ssa_instructions": pr.Steps,
				"obligations": oblNames(e.obligs), "path_condition_conjuncts": len(e.pc),
			})
		}
	}
	res.NPaths = no
	res.NOblig = len(res.Obligations)
	for f := range e.funcsSeen {
		n := 0
		for _, b := range f.Blocks {
			n += len(b.Instrs)
		}
		res.Funcs[f.String()] = n
	}
	for k := range e.intrinUsed {
		res.Intrinsics[k] = true
	}
	res.Solver = sol.Stats
	res.WallS = time.Since(t0).Seconds()
	return res
}

func oblNames(obs []*Obligation) []string {
	var out []string
	for _, o := range obs {
		out = append(out, o.Name+":"+o.Status)
	}
	return out
}

func appendUniq(xs []string, s string) []string {
	for _, x := range xs {
		if x == s {
			return xs
		}
	}
	return append(xs, s)
}

// renderValue prints a value under a model (for comparing with native observations).
func (e *Exec) renderValue(v Value, env map[string]uint64, model map[string]uint64) string {
	ev := func(t *Term) string {
		r := e.tb.Subst(t, env, map[int]*Term{})
		if r.IsConst() {
			if r.w == 0 {
				return fmt.Sprint(r.val == 1)
			}
			return fmt.Sprint(r.val)
		}
		// terms with UF applications: ask the model
		if x, ok := model[t.ref()]; ok {
			return fmt.Sprint(x)
		}
		return "?"
	}
	switch x := v.(type) {
	case *IfaceV:
		if x.typ == nil && x.v == nil {
			return "<nil>"
		}
		if x.v == nil {
			return "<nil>"
		}
		if _, ok := x.v.(*OpaqueV); ok {
			return "<opaque>"
		}
		return e.renderValue(x.v, env, model)
	case *Term:
		return ev(x)
	case *StrV:
		n := ev(x.len)
		var sb strings.Builder
		var ln int
		fmt.Sscan(n, &ln)
		off := 0
		if x.off.IsConst() {
			off = int(x.off.val)
		}
		for i := 0; i < ln && x.arr != nil && off+i < len(x.arr.cells); i++ {
			sb.WriteString(ev(x.arr.cells[off+i].v.(*Term)))
			sb.WriteString(",")
		}
		return "str[" + sb.String() + "]"
	case *SliceV:
		n := ev(x.len)
		var sb strings.Builder
		var ln int
		fmt.Sscan(n, &ln)
		off := 0
		if x.off.IsConst() {
			off = int(x.off.val)
		}
		for i := 0; i < ln && x.arr != nil && off+i < len(x.arr.cells); i++ {
			if t, ok := x.arr.cells[off+i].v.(*Term); ok {
				sb.WriteString(ev(t))
			} else {
				sb.WriteString(e.renderValue(e.loadCell(x.arr.cells[off+i]), env, model))
			}
			sb.WriteString(",")
		}
		return "slice[" + sb.String() + "]"
	case *StructV:
		var parts []string
		for _, f := range x.F {
			parts = append(parts, e.renderValue(f, env, model))
		}
		return "{" + strings.Join(parts, " ") + "}"
	}
	return fmt.Sprintf("<%T>", v)
}

func sortedKeys(m map[string]bool) []string {
	var out []string
	for k := range m {
		out = append(out, k)
	}
	sort.Strings(out)
	return out
}

type tracedPath struct {
	no      int
	class   string
	trace   string
	pc      []*Term
	want    []*Term
	nondets []*Term
}

// traceTwoSafety: two runs of the same class (e.g. "rejected code of the right length") that
// agree on everything but the attacker-controlled variables must have the same control-flow
// trace.  For every pair of paths with different traces the solver is asked for shared inputs
// with two different attacker values; sat = the trace depends on the attacker data.
func (e *Exec) traceTwoSafety(hs *HarnessSpec, cases map[string]int64, traced []tracedPath, last int, res *CaseResult, sol *Portfolio) {
	prefix := hs.Opts["attacker"]
	if prefix == "" {
		prefix = "code"
	}
	pred := func(n string) bool { return strings.HasPrefix(n, prefix) }
	for i := 0; i < last; i++ {
		for j := last; j <= last; j++ {
			a, b := traced[i], traced[j]
			if a.class != b.class || a.trace == b.trace {
				continue
			}
			ob := &Obligation{Name: "control-flow-trace-independent-of-" + prefix, Path: a.no}
			res.Obligations = append(res.Obligations, ob)
			memo := map[int]*Term{}
			as := append([]*Term{}, a.pc...)
			for _, p := range b.pc {
				as = append(as, e.tb.Rename(p, pred, "'", memo))
			}
			r := sol.Prove(e.tb, as, a.want, e.cfg.ProveTimeout)
			ob.Backend = r.Backend
			switch r.Status {
			case "unsat":
				ob.Status = "proved"
				res.Proved++
			case "sat":
				ob.Status = "violated"
				m := map[string]uint64{}
				for _, t := range a.nondets {
					if v, ok := r.Model[t.ref()]; ok {
						m[t.name] = v
					}
				}
				res.Violations = append(res.Violations, &Violation{Harness: hs.Name, Cases: cases, Name: ob.Name, Path: a.no, Model: m,
					Detail: fmt.Sprintf("paths %d and %d (class %s) are both feasible for the same secret/parameters with different %s; traces differ: [%s] vs [%s]", a.no, b.no, a.class, prefix, firstN(a.trace, 300), firstN(b.trace, 300))})
			default:
				ob.Status = "unknown"
				res.Unknown = append(res.Unknown, fmt.Sprintf("%s (paths %d,%d): %s", ob.Name, a.no, b.no, r.Note))
			}
		}
	}
}
