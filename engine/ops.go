package main

import (
	"fmt"
	"go/token"
	"go/types"

	"golang.org/x/tools/go/ssa"
)

func (e *Exec) unop(x *ssa.UnOp, v Value) Value {
	switch x.Op {
	case token.MUL:
		return e.load(v)
	case token.NOT:
		return e.tb.Not(v.(*Term))
	case token.SUB:
		return e.tb.Neg(v.(*Term))
	case token.XOR:
		return e.tb.BNot(v.(*Term))
	}
	panic(e.unsupported("unop " + x.Op.String()))
}

func (e *Exec) binop(op token.Token, a, b Value, ta, tbT types.Type, ins *ssa.BinOp) Value {
	tb := e.tb
	switch x := a.(type) {
	case *Term:
		y, ok := b.(*Term)
		if !ok {
			panic(e.internal(fmt.Sprintf("binop %s on Term and %T", op, b)))
		}
		w, signed, _ := intWidth(ta)
		if w == 0 { // bool
			switch op {
			case token.EQL:
				return tb.Eq(x, y)
			case token.NEQ:
				return tb.Ne(x, y)
			case token.AND:
				return tb.And(x, y)
			case token.OR:
				return tb.Or(x, y)
			}
			panic(e.unsupported("bool binop " + op.String()))
		}
		switch op {
		case token.ADD:
			return tb.Add(x, y)
		case token.SUB:
			return tb.Sub(x, y)
		case token.MUL:
			return tb.Mul(x, y)
		case token.QUO, token.REM:
			zero := tb.Eq(y, tb.Const(w, 0))
			if !zero.IsFalse() {
				if e.branch(zero, "divzero") {
					panic(&goPanic{val: e.runtimeError("integer divide by zero"), site: e.site()})
				}
			}
			if op == token.QUO {
				if signed {
					return tb.SDiv(x, y)
				}
				return tb.UDiv(x, y)
			}
			if signed {
				return tb.SRem(x, y)
			}
			return tb.URem(x, y)
		case token.AND:
			return tb.BAnd(x, y)
		case token.OR:
			return tb.BOr(x, y)
		case token.XOR:
			return tb.BXor(x, y)
		case token.AND_NOT:
			return tb.BAnd(x, tb.BNot(y))
		case token.SHL, token.SHR:
			wy, sy, _ := intWidth(tbT)
			if sy {
				neg := tb.Slt(y, tb.Const(wy, 0))
				if !neg.IsFalse() {
					if e.branch(neg, "negshift") {
						panic(&goPanic{val: e.runtimeError("negative shift amount"), site: e.site()})
					}
				}
			}
			// bring the count to width w, saturating
			var cnt *Term
			if wy > w {
				big := tb.Not(tb.Ult(y, tb.Const(wy, uint64(w))))
				cnt = tb.Ite(big, tb.Const(w, uint64(w)), tb.Extract(y, w-1, 0))
			} else {
				cnt = tb.ZExt(y, w-wy)
			}
			if op == token.SHL {
				return tb.Shl(x, cnt)
			}
			if signed {
				return tb.AShr(x, cnt)
			}
			return tb.LShr(x, cnt)
		case token.EQL:
			return tb.Eq(x, y)
		case token.NEQ:
			return tb.Ne(x, y)
		case token.LSS:
			if signed {
				return tb.Slt(x, y)
			}
			return tb.Ult(x, y)
		case token.LEQ:
			if signed {
				return tb.Sle(x, y)
			}
			return tb.Ule(x, y)
		case token.GTR:
			if signed {
				return tb.Slt(y, x)
			}
			return tb.Ult(y, x)
		case token.GEQ:
			if signed {
				return tb.Sle(y, x)
			}
			return tb.Ule(y, x)
		}
	case *StrV:
		y := b.(*StrV)
		switch op {
		case token.ADD:
			return e.strConcat(x, y)
		case token.EQL:
			return e.strEq(x, y, true)
		case token.NEQ:
			return tb.Not(e.strEq(x, y, true))
		case token.LSS, token.LEQ, token.GTR, token.GEQ:
			return e.strCmp(op, x, y)
		}
	case *PtrV, *ElemPtrV:
		eq := e.ptrEq(a, b)
		if op == token.EQL {
			return tb.Bool(eq)
		}
		if op == token.NEQ {
			return tb.Bool(!eq)
		}
	case *IfaceV:
		y := b.(*IfaceV)
		eq := e.ifaceEq(x, y)
		if op == token.EQL {
			return eq
		}
		if op == token.NEQ {
			return tb.Not(eq)
		}
	case *SliceV:
		// only comparison with nil
		y := b.(*SliceV)
		isnil := x.arr == nil && y.arr == nil
		if op == token.EQL {
			return tb.Bool(isnil)
		}
		if op == token.NEQ {
			return tb.Bool(!isnil)
		}
	case *MapV:
		y := b.(*MapV)
		eq := x.m == y.m
		if op == token.EQL {
			return tb.Bool(eq)
		}
		if op == token.NEQ {
			return tb.Bool(!eq)
		}
	case *FuncV:
		y := b.(*FuncV)
		eq := x.fn == y.fn && x.name == y.name
		if op == token.EQL {
			return tb.Bool(eq)
		}
		if op == token.NEQ {
			return tb.Bool(!eq)
		}
	case *StructV:
		eq := e.valueEq(a, b)
		if op == token.EQL {
			return eq
		}
		if op == token.NEQ {
			return tb.Not(eq)
		}
	case *ArrayV:
		eq := e.valueEq(a, b)
		if op == token.EQL {
			return eq
		}
		if op == token.NEQ {
			return tb.Not(eq)
		}
	}
	panic(e.unsupported(fmt.Sprintf("binop %s on %T (%s)", op, a, ta)))
}

func (e *Exec) ptrEq(a, b Value) bool {
	switch x := a.(type) {
	case *PtrV:
		y, ok := b.(*PtrV)
		return ok && x.c == y.c
	case *ElemPtrV:
		y, ok := b.(*ElemPtrV)
		return ok && x.arr == y.arr && x.idx == y.idx
	}
	return false
}

func (e *Exec) valueEq(a, b Value) *Term {
	tb := e.tb
	switch x := a.(type) {
	case *Term:
		return tb.Eq(x, b.(*Term))
	case *StrV:
		return e.strEq(x, b.(*StrV), false)
	case *PtrV, *ElemPtrV:
		return tb.Bool(e.ptrEq(a, b))
	case *IfaceV:
		return e.ifaceEq(x, b.(*IfaceV))
	case *StructV:
		y := b.(*StructV)
		r := tb.True()
		for i := range x.F {
			r = tb.And(r, e.valueEq(x.F[i], y.F[i]))
		}
		return r
	case *ArrayV:
		y := b.(*ArrayV)
		r := tb.True()
		for i := range x.E {
			r = tb.And(r, e.valueEq(x.E[i], y.E[i]))
		}
		return r
	case *FuncV:
		y := b.(*FuncV)
		return tb.Bool(x.fn == y.fn && x.name == y.name)
	case *OpaqueV:
		y, ok := b.(*OpaqueV)
		return tb.Bool(ok && x == y)
	}
	panic(e.unsupported(fmt.Sprintf("equality on %T", a)))
}

func (e *Exec) ifaceEq(x, y *IfaceV) *Term {
	tb := e.tb
	if x.typ == nil && x.v == nil || y.typ == nil && y.v == nil {
		return tb.Bool(x.typ == nil && x.v == nil && y.typ == nil && y.v == nil)
	}
	if x.typ == nil || y.typ == nil {
		return tb.Bool(x.v == y.v)
	}
	if !types.Identical(x.typ, y.typ) {
		return tb.False()
	}
	return e.valueEq(x.v, y.v)
}

// strEq compares two strings.  variableTime marks a Go-level == / != on strings,
// which is recorded in the observation trace (runtime.memequal is early-exit).
func (e *Exec) strEq(x, y *StrV, variableTime bool) *Term {
	tb := e.tb
	if variableTime {
		e.traceVarTime("string==", x, y)
	}
	lenEq := tb.Eq(x.len, y.len)
	if lenEq.IsFalse() {
		return lenEq
	}
	if x.len.IsConst() && y.len.IsConst() {
		xs, ys := e.strBytes(x), e.strBytes(y)
		r := tb.True()
		for i := range xs {
			r = tb.And(r, tb.Eq(xs[i], ys[i]))
		}
		return r
	}
	// at least one symbolic length: split on length equality, then on the value
	if !e.branch(lenEq, "strlen-eq") {
		return tb.False()
	}
	var n int
	if x.len.IsConst() {
		n = int(x.len.val)
	} else if y.len.IsConst() {
		n = int(y.len.val)
	} else {
		n = e.concLen(x.len, "string length (==)")
	}
	xs := e.strBytes(&StrV{arr: x.arr, off: x.off, len: e.c64(int64(n))})
	ys := e.strBytes(&StrV{arr: y.arr, off: y.off, len: e.c64(int64(n))})
	r := tb.True()
	for i := range xs {
		r = tb.And(r, tb.Eq(xs[i], ys[i]))
	}
	return r
}

func (e *Exec) strCmp(op token.Token, x, y *StrV) *Term {
	tb := e.tb
	e.traceVarTime("string<", x, y)
	xs, ys := e.strBytes(x), e.strBytes(y)
	// lexicographic less-than
	n := len(xs)
	if len(ys) < n {
		n = len(ys)
	}
	lt := tb.Bool(len(xs) < len(ys))
	eq := tb.Bool(len(xs) == len(ys))
	for i := n - 1; i >= 0; i-- {
		lt = tb.Or(tb.Ult(xs[i], ys[i]), tb.And(tb.Eq(xs[i], ys[i]), lt))
		eq = tb.And(tb.Eq(xs[i], ys[i]), eq)
	}
	switch op {
	case token.LSS:
		return lt
	case token.LEQ:
		return tb.Or(lt, eq)
	case token.GTR:
		return tb.Not(tb.Or(lt, eq))
	default:
		return tb.Not(lt)
	}
}

func (e *Exec) strConcat(x, y *StrV) Value {
	if x.len.IsConst() && x.len.val == 0 {
		return y
	}
	if y.len.IsConst() && y.len.val == 0 {
		return x
	}
	if x.len.IsConst() && !y.len.IsConst() && y.off.IsConst() && y.arr != nil {
		// exact: the bytes of x followed by the backing window of y, length len(x)+len(y)
		bs := append(append([]*Term{}, e.strBytes(x)...), e.windowBytes(y.arr, int(y.off.val))...)
		r := e.mkString(bs)
		r.len = e.tb.Add(x.len, y.len)
		e.strPieces[r.arr] = []*StrV{x, y}
		if rec, ok := e.strMeta[y.arr]; ok {
			e.strMeta[r.arr] = &fmtRecord{format: "%s%s", args: append([]Value{x}, rec.args...)}
		}
		return r
	}
	if !x.len.IsConst() || !y.len.IsConst() {
		// concatenation with a string of symbolic length (opaque formatted text): the result is
		// opaque too; its parts are recorded for dependence analysis
		r := e.opaqueString("concat", 96, &fmtRecord{format: "%s%s", args: []Value{x, y}})
		e.strPieces[r.arr] = []*StrV{x, y}
		return r
	}
	xs, ys := e.strBytes(x), e.strBytes(y)
	return e.mkString(append(append([]*Term{}, xs...), ys...))
}

func (e *Exec) convert(v Value, from, to types.Type) Value {
	tb := e.tb
	if t, ok := v.(*Term); ok {
		_, fs, _ := intWidth(from)
		if isString(to) {
			// string(rune)
			if t.IsConst() {
				return e.constString(string(rune(sext64(t.val, t.w))))
			}
			panic(e.unsupported("string(symbolic rune)"))
		}
		if isFloat(to) {
			return &OpaqueV{kind: "float"}
		}
		if _, ok := to.Underlying().(*types.Basic); ok && to.Underlying().(*types.Basic).Kind() == types.UnsafePointer {
			panic(e.unsupported("uintptr to unsafe.Pointer"))
		}
		w, _, ok := intWidth(to)
		if !ok {
			panic(e.unsupported("convert int to " + to.String()))
		}
		return tb.Resize(t, w, fs)
	}
	switch x := v.(type) {
	case *StrV:
		if sl, ok := to.Underlying().(*types.Slice); ok {
			if b, ok := sl.Elem().Underlying().(*types.Basic); ok && b.Kind() == types.Uint8 {
				if !x.len.IsConst() && x.off.IsConst() && x.arr != nil {
					// symbolic length over a concrete backing array: copy the whole window
					win := e.windowBytes(x.arr, int(x.off.val))
					a := e.mkBytes(win, e.newObj("alloc", "[]byte(string)@"+e.site()))
					return &SliceV{arr: a, off: e.c64(0), len: x.len, cap: x.len}
				}
				bs := e.strBytes(x)
				a := e.mkBytes(bs, e.newObj("alloc", "[]byte(string)@"+e.site()))
				n := e.c64(int64(len(bs)))
				return &SliceV{arr: a, off: e.c64(0), len: n, cap: n}
			}
			panic(e.unsupported("string to []rune"))
		}
		if isString(to) {
			return x
		}
	case *SliceV:
		if isString(to) {
			if !x.len.IsConst() && x.off.IsConst() && x.arr != nil {
				win := e.windowBytes(x.arr, int(x.off.val))
				r := e.mkString(win)
				r.len = x.len
				return r
			}
			bs := e.sliceBytes(x)
			if len(bs) == 0 {
				return e.constString("")
			}
			return e.mkString(bs)
		}
		if _, ok := to.Underlying().(*types.Slice); ok {
			return x
		}
	case *PtrV:
		// pointer <-> unsafe.Pointer
		if pt, ok := to.Underlying().(*types.Pointer); ok {
			if fb, ok := from.Underlying().(*types.Basic); ok && fb.Kind() == types.UnsafePointer {
				if x.c == nil {
					return x
				}
				if types.Identical(pt.Elem(), x.c.typ) {
					return &PtrV{c: x.c}
				}
				return &PtrV{c: x.c, view: pt.Elem()}
			}
			return x
		}
		if tbk, ok := to.Underlying().(*types.Basic); ok && tbk.Kind() == types.UnsafePointer {
			return x
		}
	case *OpaqueV:
		if x.kind == "float" {
			if isFloat(to) {
				return x
			}
			panic(e.unsupported("float to int conversion"))
		}
	case *FuncV:
		return x
	}
	panic(e.unsupported(fmt.Sprintf("convert %T from %s to %s", v, from, to)))
}

// ---------- maps ----------

func (e *Exec) keyEq(a, b Value) *Term {
	return e.valueEq(a, b)
}

func (e *Exec) mapFind(m *MapObj, key Value) (idx int, found bool) {
	if m == nil || len(m.keys) == 0 {
		return -1, false
	}
	// fast path: all comparisons fold to constants
	conds := make([]*Term, len(m.keys))
	symbolic := false
	for i, k := range m.keys {
		conds[i] = e.mapKeyEq(k, key)
		if conds[i].IsTrue() {
			return i, true
		}
		if !conds[i].IsFalse() {
			symbolic = true
		}
	}
	if !symbolic {
		return -1, false
	}
	// symbolic key: fork over feasible matches plus "none"
	var cs []*Term
	var ix []int
	none := e.tb.True()
	for i, c := range conds {
		if c.IsFalse() {
			continue
		}
		cs = append(cs, c)
		ix = append(ix, i)
		none = e.tb.And(none, e.tb.Not(c))
	}
	cs = append(cs, none)
	ix = append(ix, -1)
	k := e.choose(cs, "maplookup")
	return ix[k], ix[k] >= 0
}

func (e *Exec) mapKeyEq(a, b Value) *Term {
	if x, ok := a.(*StrV); ok {
		y := b.(*StrV)
		e.traceVarTime("mapkey", x, y)
		if x.len.IsConst() && y.len.IsConst() {
			return e.strEq(x, y, false)
		}
		// symbolic length: compare under length equality without forking
		if xl, ok2 := x.len, true; ok2 && xl.IsConst() {
			ys := e.strBytes(&StrV{arr: y.arr, off: y.off, len: y.len})
			_ = ys
		}
		return e.strEq(x, y, false)
	}
	return e.valueEq(a, b)
}

func (e *Exec) lookup(x Value, key Value, commaOk bool, xt, kt types.Type) Value {
	switch q := x.(type) {
	case *StrV:
		i := e.toInt64(key.(*Term), kt)
		e.boundsPanic(e.tb.Not(e.tb.Ult(i, q.len)), "string index out of range")
		e.traceIndex(i)
		return e.arrGet(q.arr, e.tb.Add(q.off, i))
	case *MapV:
		mt := xt.Underlying().(*types.Map)
		idx, found := e.mapFind(q.m, key)
		var v Value
		if found {
			v = e.loadCell(q.m.vals[idx])
		} else {
			v = e.zero(mt.Elem())
		}
		if commaOk {
			return &TupleV{E: []Value{v, e.tb.Bool(found)}}
		}
		return v
	}
	panic(e.internal(fmt.Sprintf("Lookup on %T", x)))
}

func (e *Exec) mapUpdate(mv Value, key, val Value) {
	m := mv.(*MapV).m
	if m == nil {
		panic(&goPanic{val: e.runtimeError("assignment to entry in nil map"), site: e.site()})
	}
	e.noteWrite(m.obj, "mapupdate")
	idx, found := e.mapFind(m, key)
	if e.trailOn {
		e.trail = append(e.trail, trailEnt{m: m, mk: m.keys, mv: m.vals})
	}
	if found {
		// replace cell (keep old slices intact for rollback)
		nv := append([]*Cell{}, m.vals...)
		nv[idx] = e.newCell(m.vt, m.obj, val)
		m.vals = nv
		return
	}
	m.keys = append(append([]Value{}, m.keys...), key)
	m.vals = append(append([]*Cell{}, m.vals...), e.newCell(m.vt, m.obj, val))
}

func (e *Exec) mapDelete(mv Value, key Value) {
	m := mv.(*MapV).m
	if m == nil {
		return
	}
	e.noteWrite(m.obj, "mapdelete")
	idx, found := e.mapFind(m, key)
	if !found {
		return
	}
	if e.trailOn {
		e.trail = append(e.trail, trailEnt{m: m, mk: m.keys, mv: m.vals})
	}
	nk := append([]Value{}, m.keys[:idx]...)
	nk = append(nk, m.keys[idx+1:]...)
	nv := append([]*Cell{}, m.vals[:idx]...)
	nv = append(nv, m.vals[idx+1:]...)
	m.keys, m.vals = nk, nv
}

// ---------- range ----------

type rangeIter struct {
	m   *MapObj
	s   *StrV
	pos int
}

func (e *Exec) rangeInit(x Value) Value {
	switch q := x.(type) {
	case *MapV:
		it := &rangeIter{m: q.m}
		if q.m != nil {
			// iterate over a snapshot of the keys
			it.m = &MapObj{keys: append([]Value{}, q.m.keys...), vals: append([]*Cell{}, q.m.vals...)}
		}
		return &OpaqueV{kind: "iter", data: it}
	case *StrV:
		return &OpaqueV{kind: "iter", data: &rangeIter{s: q}}
	}
	panic(e.unsupported(fmt.Sprintf("range over %T", x)))
}

func (e *Exec) rangeNext(itv Value, isString bool) Value {
	it := itv.(*OpaqueV).data.(*rangeIter)
	tb := e.tb
	if isString {
		bs := e.strBytes(it.s)
		if it.pos >= len(bs) {
			return &TupleV{E: []Value{tb.False(), e.c64(0), tb.Const(32, 0)}}
		}
		b := bs[it.pos]
		// ASCII only: a byte >= 0x80 needs UTF-8 decoding, which is not modelled
		hi := tb.Not(tb.Ult(b, tb.Const(8, 0x80)))
		if !hi.IsFalse() {
			if e.branch(hi, "range-string-nonascii") {
				panic(e.unsupported("range over string with non-ASCII byte"))
			}
		}
		i := it.pos
		it.pos++
		return &TupleV{E: []Value{tb.True(), e.c64(int64(i)), tb.ZExt(b, 24)}}
	}
	if it.m == nil || it.pos >= len(it.m.keys) {
		return &TupleV{E: []Value{tb.False(), nil, nil}}
	}
	i := it.pos
	it.pos++
	return &TupleV{E: []Value{tb.True(), it.m.keys[i], e.loadCell(it.m.vals[i])}}
}

// ---------- builtins ----------

func (e *Exec) builtin(name string, args []Value, c *ssa.CallCommon) Value {
	tb := e.tb
	switch name {
	case "len":
		switch q := args[0].(type) {
		case *StrV:
			return q.len
		case *SliceV:
			return q.len
		case *MapV:
			if q.m == nil {
				return e.c64(0)
			}
			return e.c64(int64(len(q.m.keys)))
		case *PtrV:
			return e.c64(int64(len(q.c.arr.cells)))
		case *ArrayV:
			return e.c64(int64(len(q.E)))
		}
	case "cap":
		switch q := args[0].(type) {
		case *SliceV:
			return q.cap
		case *PtrV:
			return e.c64(int64(len(q.c.arr.cells)))
		}
	case "append":
		return e.appendOp(args[0].(*SliceV), args[1], c)
	case "copy":
		return e.copyOp(args[0].(*SliceV), args[1])
	case "delete":
		e.mapDelete(args[0], args[1])
		return &TupleV{}
	case "print", "println":
		return &TupleV{}
	case "recover":
		owner, _ := e.opaque["deferOwner"].(*Frame)
		// recover only has effect when called directly by a deferred function
		if owner != nil && owner.panic != nil && e.curFrame != nil && e.curFrame.caller == owner {
			v := owner.panic.val
			owner.panic = nil
			if iv, ok := v.(*IfaceV); ok {
				return iv
			}
			return &IfaceV{typ: nil, v: &OpaqueV{kind: "panicval", data: v}}
		}
		return &IfaceV{}
	case "min", "max":
		r := args[0].(*Term)
		_, signed, _ := intWidth(c.Args[0].Type())
		for _, a := range args[1:] {
			t := a.(*Term)
			var lt *Term
			if signed {
				lt = tb.Slt(t, r)
			} else {
				lt = tb.Ult(t, r)
			}
			if name == "max" {
				lt = tb.Not(tb.Or(lt, tb.Eq(t, r)))
				lt = tb.Not(lt)
				// max: pick t when t > r
				if signed {
					lt = tb.Slt(r, t)
				} else {
					lt = tb.Ult(r, t)
				}
			}
			r = tb.Ite(lt, t, r)
		}
		return r
	case "clear":
		switch q := args[0].(type) {
		case *SliceV:
			if q.arr == nil {
				return &TupleV{}
			}
			e.noteWrite(q.arr.obj, "clear")
			if q.off.IsConst() && scalarCells(q.arr) {
				// element-wise: cell off+i becomes zero when i < len
				do := int(q.off.val)
				for i := 0; do+i < len(q.arr.cells); i++ {
					c := q.arr.cells[do+i]
					old := c.v.(*Term)
					in := e.tb.Ult(e.c64(int64(i)), q.len)
					if in.IsFalse() {
						break
					}
					e.setLeaf(c, e.tb.Ite(in, e.tb.Const(old.w, 0), old))
				}
				return &TupleV{}
			}
			if scalarCells(q.arr) && len(q.arr.cells) <= 4096 {
				// symbolic offset and length: cell j is zeroed when off <= j < off+len
				end := e.tb.Add(q.off, q.len)
				for j, c := range q.arr.cells {
					jt := e.c64(int64(j))
					in := e.tb.And(e.tb.Ule(q.off, jt), e.tb.Ult(jt, end))
					if in.IsFalse() {
						continue
					}
					old := c.v.(*Term)
					e.setLeaf(c, e.tb.Ite(in, e.tb.Const(old.w, 0), old))
				}
				return &TupleV{}
			}
			n := e.concLen(q.len, "clear length")
			for i := 0; i < n; i++ {
				e.arrSetTrail(q.arr, e.tb.Add(q.off, e.c64(int64(i))), e.zero(q.arr.elem))
			}
			return &TupleV{}
		case *MapV:
			if q.m != nil {
				if e.trailOn {
					e.trail = append(e.trail, trailEnt{m: q.m, mk: q.m.keys, mv: q.m.vals})
				}
				q.m.keys, q.m.vals = nil, nil
			}
			return &TupleV{}
		}
	case "ssa:wrapnilchk":
		return args[0]
	}
	panic(e.unsupported("builtin " + name))
}

// appendOp implements append(s, t...) where t is a slice or string.
func (e *Exec) appendOp(s *SliceV, t Value, c *ssa.CallCommon) Value {
	tb := e.tb
	var src []Value
	var elemT types.Type
	if r := e.appendSym(s, t); r != nil {
		return r
	}
	switch q := t.(type) {
	case *SliceV:
		n := e.concLen(q.len, "append source length")
		for i := 0; i < n; i++ {
			src = append(src, e.arrGet(q.arr, tb.Add(q.off, e.c64(int64(i)))))
		}
		if q.arr != nil {
			e.noteRead(q.arr.obj)
			elemT = q.arr.elem
		}
	case *StrV:
		for _, b := range e.strBytes(q) {
			src = append(src, b)
		}
		elemT = e.byteType()
	default:
		panic(e.internal(fmt.Sprintf("append of %T", t)))
	}
	if s.arr != nil {
		elemT = s.arr.elem
	}
	if elemT == nil && c != nil {
		elemT = c.Args[0].Type().Underlying().(*types.Slice).Elem()
	}
	n := int64(len(src))
	if n == 0 {
		return s
	}
	if !s.len.IsConst() {
		// make the destination length concrete (usually the path condition fixes it) so that the
		// element stores below hit concrete cells instead of symbolic indices
		s = &SliceV{arr: s.arr, off: s.off, len: e.c64(int64(e.concLen(s.len, "append destination length"))), cap: s.cap}
	}
	newLen := tb.Add(s.len, e.c64(n))
	fits := tb.Ule(newLen, s.cap)
	if s.arr != nil && e.branch(fits, "append-fits") {
		// in place
		for i, v := range src {
			e.arrSetTrail(s.arr, tb.Add(tb.Add(s.off, s.len), e.c64(int64(i))), v)
		}
		return &SliceV{arr: s.arr, off: s.off, len: newLen, cap: s.cap}
	}
	// reallocate: new backing array of exactly the needed size (documented
	// under-approximation of Go's growth policy: no spare capacity)
	oldN := e.concLen(s.len, "append destination length")
	a := e.newArr(elemT, oldN+int(n), e.newObj("alloc", "append@"+e.site()), func(i int) Value {
		if i < oldN {
			return e.arrGet(s.arr, tb.Add(s.off, e.c64(int64(i))))
		}
		return src[i-oldN]
	})
	if s.arr != nil {
		e.noteRead(s.arr.obj)
	}
	nl := e.c64(int64(oldN) + n)
	return &SliceV{arr: a, off: e.c64(0), len: nl, cap: nl}
}

func (e *Exec) copyOp(dst *SliceV, srcV Value) Value {
	tb := e.tb
	var slen, soff *Term
	var sarr *Arr
	switch q := srcV.(type) {
	case *SliceV:
		slen, soff, sarr = q.len, q.off, q.arr
	case *StrV:
		slen, soff, sarr = q.len, q.off, q.arr
	default:
		panic(e.internal(fmt.Sprintf("copy from %T", srcV)))
	}
	if sarr != nil {
		e.noteRead(sarr.obj)
	}
	n := tb.Ite(tb.Ult(slen, dst.len), slen, dst.len)
	if !n.IsConst() && dst.arr != nil && sarr != nil && dst.off.IsConst() && soff.IsConst() && scalarCells(dst.arr) && scalarCells(sarr) {
		// symbolic number of elements over concrete backing arrays: element-wise if-then-else
		do, so := int(dst.off.val), int(soff.val)
		max := len(dst.arr.cells) - do
		if m := len(sarr.cells) - so; m < max {
			max = m
		}
		if ub := upperBound(n); ub < uint64(max) {
			max = int(ub)
		}
		vals := make([]*Term, max)
		for i := 0; i < max; i++ {
			vals[i] = sarr.cells[so+i].v.(*Term)
		}
		e.noteWrite(dst.arr.obj, "copy")
		for i := 0; i < max; i++ {
			c := dst.arr.cells[do+i]
			e.setLeaf(c, tb.Ite(tb.Ult(e.c64(int64(i)), n), vals[i], c.v.(*Term)))
		}
		return n
	}
	if (!n.IsConst() || !dst.off.IsConst() || !soff.IsConst()) && dst.arr != nil && sarr != nil && scalarCells(dst.arr) && scalarCells(sarr) &&
		len(dst.arr.cells) <= 1024 && len(sarr.cells) <= 1024 && len(sarr.cells) > 0 {
		// general symbolic copy: every destination cell j becomes
		//   ite(off <= j < off+n, src[soff + (j-off)], old)
		srcT := make([]*Term, len(sarr.cells))
		for i, c := range sarr.cells {
			srcT[i] = c.v.(*Term)
		}
		e.noteWrite(dst.arr.obj, "copy")
		end := tb.Add(dst.off, n)
		newv := make([]*Term, len(dst.arr.cells))
		for j, c := range dst.arr.cells {
			jt := e.c64(int64(j))
			in := tb.And(tb.Ule(dst.off, jt), tb.Ult(jt, end))
			if in.IsFalse() {
				newv[j] = c.v.(*Term)
				continue
			}
			idx := tb.Add(soff, tb.Sub(jt, dst.off))
			newv[j] = tb.Ite(in, e.selectTree(idx, srcT), c.v.(*Term))
		}
		for j, c := range dst.arr.cells {
			if newv[j] != c.v {
				e.setLeaf(c, newv[j])
			}
		}
		return n
	}
	get := func(i int) Value { return e.arrGet(sarr, tb.Add(soff, e.c64(int64(i)))) }
	cn := e.concLen(n, "copy length")
	// read all first (overlap semantics of memmove)
	vals := make([]Value, cn)
	for i := 0; i < cn; i++ {
		vals[i] = get(i)
	}
	for i := 0; i < cn; i++ {
		e.arrSetTrail(dst.arr, tb.Add(dst.off, e.c64(int64(i))), vals[i])
	}
	return e.c64(int64(cn))
}

// appendSym handles append(s, t...) when len(t) is symbolic over a concrete backing
// array and s has concrete offset and length: in place (if it fits) by element-wise
// if-then-else, otherwise into a fresh array sized for the largest possible source.
func (e *Exec) appendSym(s *SliceV, t Value) Value {
	tb := e.tb
	var tlen, toff *Term
	var tarr *Arr
	switch q := t.(type) {
	case *SliceV:
		tlen, toff, tarr = q.len, q.off, q.arr
	case *StrV:
		tlen, toff, tarr = q.len, q.off, q.arr
	}
	if tlen == nil || tarr == nil || !toff.IsConst() || !scalarCells(tarr) {
		return nil
	}
	if tlen.IsConst() && s.len.IsConst() {
		return nil // fully concrete lengths: handled by the general code
	}
	if !s.off.IsConst() || (s.arr != nil && !scalarCells(s.arr)) {
		return nil
	}
	if !s.len.IsConst() {
		// usually the path condition fixes the destination length: then the cheap concrete-position code applies
		if v, ok := e.uniqueValue(s.len); ok {
			s = &SliceV{arr: s.arr, off: s.off, len: e.c64(v), cap: s.cap}
			if tlen.IsConst() {
				return nil
			}
		} else {
			return e.appendSymBoth(s, tlen, int(toff.val), tarr)
		}
	}
	e.noteRead(tarr.obj)
	so := int(toff.val)
	max := len(tarr.cells) - so
	if ub := upperBound(tlen); ub < uint64(max) {
		max = int(ub)
	}
	srcT := make([]*Term, max)
	for i := range srcT {
		srcT[i] = tarr.cells[so+i].v.(*Term)
	}
	newLen := tb.Add(s.len, tlen)
	fits := tb.Ule(newLen, s.cap)
	base := int(s.off.val) + int(s.len.val)
	if s.arr != nil && e.branch(fits, "append-fits") {
		e.noteWrite(s.arr.obj, "append")
		for i := 0; i < max && base+i < len(s.arr.cells); i++ {
			c := s.arr.cells[base+i]
			e.setLeaf(c, tb.Ite(tb.Ult(e.c64(int64(i)), tlen), srcT[i], c.v.(*Term)))
		}
		return &SliceV{arr: s.arr, off: s.off, len: newLen, cap: s.cap}
	}
	oldN := int(s.len.val)
	zero := tb.Const(srcT0w(srcT, tarr), 0)
	a := e.newArr(tarr.elem, oldN+max, e.newObj("alloc", "append@"+e.site()), func(i int) Value {
		if i < oldN {
			return e.arrGet(s.arr, tb.Add(s.off, e.c64(int64(i))))
		}
		return tb.Ite(tb.Ult(e.c64(int64(i-oldN)), tlen), srcT[i-oldN], zero)
	})
	if s.arr != nil {
		e.noteRead(s.arr.obj)
	}
	return &SliceV{arr: a, off: e.c64(0), len: newLen, cap: newLen}
}

func srcT0w(ts []*Term, a *Arr) int {
	if len(ts) > 0 {
		return ts[0].w
	}
	w, _, _ := intWidth(a.elem)
	return w
}

// windowBytes returns the byte terms of arr from off to its end.
func (e *Exec) windowBytes(a *Arr, off int) []*Term {
	e.noteRead(a.obj)
	out := make([]*Term, 0, len(a.cells)-off)
	for _, c := range a.cells[off:] {
		out = append(out, c.v.(*Term))
	}
	return out
}

// appendSymBoth: append with a symbolic destination length (and possibly symbolic source
// length) over concrete backing arrays.
func (e *Exec) appendSymBoth(s *SliceV, tlen *Term, so int, tarr *Arr) Value {
	tb := e.tb
	e.noteRead(tarr.obj)
	maxSrc := len(tarr.cells) - so
	if ub := upperBound(tlen); ub < uint64(maxSrc) {
		maxSrc = int(ub)
	}
	srcT := make([]*Term, maxSrc)
	for i := range srcT {
		srcT[i] = tarr.cells[so+i].v.(*Term)
	}
	w := srcT0w(srcT, tarr)
	zero := tb.Const(w, 0)
	srcAt := func(idx *Term) *Term {
		if len(srcT) == 0 {
			return zero
		}
		return e.selectTree(idx, srcT)
	}
	newLen := tb.Add(s.len, tlen)
	fits := tb.Ule(newLen, s.cap)
	if s.arr != nil && e.branch(fits, "append-fits") {
		e.noteWrite(s.arr.obj, "append")
		do := int(s.off.val)
		newv := make([]*Term, len(s.arr.cells))
		for j, c := range s.arr.cells {
			old := c.v.(*Term)
			if j < do {
				newv[j] = old
				continue
			}
			rel := e.c64(int64(j - do))
			in := tb.And(tb.Ule(s.len, rel), tb.Ult(rel, newLen))
			if in.IsFalse() {
				newv[j] = old
				continue
			}
			newv[j] = tb.Ite(in, srcAt(tb.Sub(rel, s.len)), old)
		}
		for j, c := range s.arr.cells {
			if newv[j] != c.v {
				e.setLeaf(c, newv[j])
			}
		}
		return &SliceV{arr: s.arr, off: s.off, len: newLen, cap: s.cap}
	}
	// reallocation: fresh array large enough for the largest possible result
	maxOld := 0
	do := 0
	if s.arr != nil {
		do = int(s.off.val)
		maxOld = len(s.arr.cells) - do
		if ub := upperBound(s.len); ub < uint64(maxOld) {
			maxOld = int(ub)
		}
		e.noteRead(s.arr.obj)
	}
	total := maxOld + maxSrc
	if total > 4096 {
		panic(pathAbort{"bound", "symbolic append result larger than 4096 elements"})
	}
	oldT := make([]*Term, maxOld)
	for i := range oldT {
		oldT[i] = s.arr.cells[do+i].v.(*Term)
	}
	a := e.newArr(tarr.elem, total, e.newObj("alloc", "append@"+e.site()), func(j int) Value {
		jt := e.c64(int64(j))
		v := zero
		inSrc := tb.And(tb.Ule(s.len, jt), tb.Ult(jt, newLen))
		if !inSrc.IsFalse() {
			v = tb.Ite(inSrc, srcAt(tb.Sub(jt, s.len)), zero)
		}
		if j < maxOld {
			v = tb.Ite(tb.Ult(jt, s.len), oldT[j], v)
		}
		return v
	})
	return &SliceV{arr: a, off: e.c64(0), len: newLen, cap: newLen}
}
