package main

// Contracts / stubs for std functions the executor does not run from their SSA
// bodies.  Every intrinsic used in a run is listed in the evidence file.

import (
	"crypto/hmac"
	"crypto/sha1"
	"crypto/sha256"
	"crypto/sha512"
	"fmt"
	"go/types"
	"hash"
	"strings"

	"golang.org/x/tools/go/ssa"
)

type intrinsicFn func(e *Exec, args []Value, site *ssa.CallCommon) Value

var intrinsics map[string]intrinsicFn

func init() {
	intrinsics = map[string]intrinsicFn{
		"crypto/hmac.New":                           inHmacNew,
		"(*sync.Pool).Get":                          inPoolGet,
		"(*sync.Pool).Put":                          inPoolPut,
		"strings.TrimSpace":                         inTrimSpace,
		"strings.ToUpper":                           func(e *Exec, a []Value, s *ssa.CallCommon) Value { return inCaseMap(e, a, true) },
		"strings.ToLower":                           func(e *Exec, a []Value, s *ssa.CallCommon) Value { return inCaseMap(e, a, false) },
		"strings.Repeat":                            inRepeat,
		"strings.Split":                             func(e *Exec, a []Value, s *ssa.CallCommon) Value { return inSplit(e, a[0], a[1], nil) },
		"strings.SplitN":                            func(e *Exec, a []Value, s *ssa.CallCommon) Value { return inSplit(e, a[0], a[1], a[2].(*Term)) },
		"strings.Clone":                             func(e *Exec, a []Value, s *ssa.CallCommon) Value { return a[0] },
		"internal/stringslite.Clone":                func(e *Exec, a []Value, s *ssa.CallCommon) Value { return a[0] },
		"strings.ReplaceAll":                        func(e *Exec, a []Value, s *ssa.CallCommon) Value { return inReplace(e, a[0], a[1], a[2], nil) },
		"strings.Replace":                           func(e *Exec, a []Value, s *ssa.CallCommon) Value { return inReplace(e, a[0], a[1], a[2], a[3].(*Term)) },
		"strings.IndexByte":                         inIndexByte,
		"strings.Contains":                          inContains,
		"fmt.Sprintf":                               inSprintf,
		"fmt.Errorf":                                inErrorf,
		"fmt.Sprint":                                inSprint,
		"crypto/rand.Read":                          inRandRead,
		"(*crypto/rand.reader).Read":                inReaderRead,
		"crypto/internal/boring/sig.StandardCrypto": func(e *Exec, a []Value, s *ssa.CallCommon) Value { return &TupleV{} },
		"internal/bytealg.MakeNoZero":               inMakeNoZero,
		"crypto/subtle.XORBytes":                    nil,
		"time.Now":                                  inTimeNow,
		"time.Since":                                func(e *Exec, a []Value, s *ssa.CallCommon) Value { return e.tb.Const(64, 0) },
		"time.runtimeNano":                          func(e *Exec, a []Value, s *ssa.CallCommon) Value { return e.tb.Const(64, 1) },
		"runtime.KeepAlive":                         func(e *Exec, a []Value, s *ssa.CallCommon) Value { return &TupleV{} },
		"(*sync.Mutex).Lock":                        func(e *Exec, a []Value, s *ssa.CallCommon) Value { return &TupleV{} },
		"(*sync.Mutex).Unlock":                      func(e *Exec, a []Value, s *ssa.CallCommon) Value { return &TupleV{} },
		"(*sync.RWMutex).RLock":                     func(e *Exec, a []Value, s *ssa.CallCommon) Value { return &TupleV{} },
		"(*sync.RWMutex).RUnlock":                   func(e *Exec, a []Value, s *ssa.CallCommon) Value { return &TupleV{} },
		"(*sync.RWMutex).Lock":                      func(e *Exec, a []Value, s *ssa.CallCommon) Value { return &TupleV{} },
		"(*sync.RWMutex).Unlock":                    func(e *Exec, a []Value, s *ssa.CallCommon) Value { return &TupleV{} },
		"strconv.FormatInt":                         inFormatInt,
		"strconv.Itoa":                              inFormatInt,
		"strconv.Quote":                             inQuote,
		"internal/godebug.(*Setting).Value":         func(e *Exec, a []Value, s *ssa.CallCommon) Value { return e.constString("") },
	}
	delete(intrinsics, "crypto/subtle.XORBytes")
	registerHarnessIntrinsics()
	registerExtraIntrinsics()
}

// ---------- HMAC as an uninterpreted function ----------

type hmacObj struct {
	seq     int
	alg     string
	width   int
	key     []*Term
	msg     []*Term
	digest  []*Term
	sums    int
	writes  int
	resets  int
	symLens []*Term // lengths of message chunks written with a symbolic length
	// exact accumulation while chunks of symbolic length are being written
	acc       *SliceV
	accChunks []*Term
	accLens   []*Term
}

// hmacSettle turns an accumulated message of symbolic chunk lengths into an ordinary message if
// its total length can only have one value on this path (e.g. "field then zero padding up to
// 128"); otherwise the message stays symbolic in length and its digest is a fresh value shared
// by structurally identical (key, chunks, lengths) only.
func (e *Exec) hmacSettle(h *hmacObj) {
	if h.acc == nil {
		return
	}
	if v, ok := e.uniqueValue(h.acc.len); ok && h.acc.arr != nil {
		fixed := &SliceV{arr: h.acc.arr, off: h.acc.off, len: e.c64(v), cap: h.acc.cap}
		h.msg = e.sliceBytes(fixed)
		h.symLens = nil
	} else {
		h.msg = h.accChunks
		h.symLens = h.accLens
	}
	h.acc, h.accChunks, h.accLens = nil, nil, nil
}

var hashAlgs = map[string]struct {
	name  string
	width int
	id    int
}{
	"crypto/sha1.New":   {"sha1", 20, 0},
	"crypto/sha256.New": {"sha256", 32, 1},
	"crypto/sha512.New": {"sha512", 64, 2},
}

func inHmacNew(e *Exec, args []Value, site *ssa.CallCommon) Value {
	hf := args[0].(*FuncV)
	if hf.fn == nil {
		panic(e.unsupported("hmac.New with non-function hash"))
	}
	alg, ok := hashAlgs[hf.fn.String()]
	if !ok {
		panic(e.unsupported("hmac.New with hash constructor " + hf.fn.String()))
	}
	key := e.sliceBytes(args[1].(*SliceV))
	if ks := args[1].(*SliceV); ks.arr != nil {
		e.noteRead(ks.arr.obj)
	}
	h := &hmacObj{seq: len(e.hmacCalls), alg: alg.name, width: alg.width, key: append([]*Term{}, key...)}
	e.hmacCalls = append(e.hmacCalls, h)
	return &IfaceV{typ: nil, v: &OpaqueV{kind: "hmac", data: h}}
}

func (e *Exec) hmacDigest(h *hmacObj) []*Term {
	if h.digest != nil {
		return h.digest
	}
	allConc := true
	for _, t := range h.key {
		allConc = allConc && t.IsConst()
	}
	for _, t := range h.msg {
		allConc = allConc && t.IsConst()
	}
	out := make([]*Term, h.width)
	if e.cfg.Concrete != nil && e.opaque["modeldigests"] == true && h.seq < len(e.cfg.ConcDigests) && len(e.cfg.ConcDigests[h.seq]) == h.width {
		for i, b := range e.cfg.ConcDigests[h.seq] {
			out[i] = e.tb.Const(8, uint64(b))
		}
		h.digest = out
		return out
	}
	if allConc && e.cfg.RealHMAC {
		var hf func() hash.Hash
		switch h.alg {
		case "sha1":
			hf = sha1.New
		case "sha256":
			hf = sha256.New
		default:
			hf = sha512.New
		}
		kb := make([]byte, len(h.key))
		for i, t := range h.key {
			kb[i] = byte(t.val)
		}
		mb := make([]byte, len(h.msg))
		for i, t := range h.msg {
			mb[i] = byte(t.val)
		}
		m := hmac.New(hf, kb)
		m.Write(mb)
		for i, b := range m.Sum(nil) {
			out[i] = e.tb.Const(8, uint64(b))
		}
		h.digest = out
		return out
	}
	if e.opaque["hmacfresh"] == true || len(h.symLens) > 0 {
		// digest as fresh variables; calls with structurally identical (algorithm, key, message)
		// share them (sound: identical terms denote identical values), other pairs are unrelated
		var sb strings.Builder
		sb.WriteString(h.alg)
		for _, t := range h.key {
			fmt.Fprintf(&sb, ",%d", t.id)
		}
		sb.WriteString("|")
		for _, t := range h.msg {
			fmt.Fprintf(&sb, ",%d", t.id)
		}
		for _, t := range h.symLens {
			fmt.Fprintf(&sb, ";%d", t.id)
		}
		memo, _ := e.opaque["hmacmemo"].(map[string][]*Term)
		if memo == nil {
			memo = map[string][]*Term{}
			e.opaque["hmacmemo"] = memo
		}
		if d, ok := memo[sb.String()]; ok {
			h.digest = d
			return d
		}
		for i := range out {
			out[i] = e.freshVar(fmt.Sprintf("hmac%d_%d", h.seq, i), 8)
		}
		memo[sb.String()] = out
		h.digest = out
		return out
	}
	args := append(append([]*Term{}, h.key...), h.msg...)
	for i := range out {
		name := fmt.Sprintf("HMAC_%s_k%d_m%d_b%d", h.alg, len(h.key), len(h.msg), i)
		if len(args) == 0 {
			out[i] = e.tb.Var(name, 8)
		} else {
			out[i] = e.tb.UF(name, 8, args...)
		}
	}
	h.digest = out
	return out
}

func (e *Exec) opaqueInvoke(ov *OpaqueV, method string, args []Value, c *ssa.CallCommon) Value {
	tb := e.tb
	switch ov.kind {
	case "hmac":
		h := ov.data.(*hmacObj)
		switch method {
		case "Write":
			s := args[0].(*SliceV)
			if s.arr != nil {
				e.noteRead(s.arr.obj)
			}
			if !s.len.IsConst() {
				if v, ok := e.uniqueValue(s.len); ok {
					s = &SliceV{arr: s.arr, off: s.off, len: e.c64(v), cap: s.cap}
				}
			}
			if h.acc != nil || (!s.len.IsConst() && s.arr != nil && s.off.IsConst()) {
				// a chunk of symbolic length (or a chunk after one): the message is accumulated exactly as
				// a byte slice of symbolic length (the executor's own append); it becomes an ordinary
				// message again at Sum if its total length has a single possible value
				if h.acc == nil {
					n := e.c64(int64(len(h.msg)))
					h.acc = &SliceV{arr: e.mkBytes(append([]*Term{}, h.msg...), e.newObj("intrinsic", "hmac-message")), off: e.c64(0), len: n, cap: n}
					h.accChunks = append([]*Term{}, h.msg...)
				}
				if s.arr != nil && s.off.IsConst() {
					h.accChunks = append(h.accChunks, e.windowBytes(s.arr, int(s.off.val))...)
				}
				h.accLens = append(h.accLens, s.len)
				h.acc = e.appendOp(h.acc, s, nil).(*SliceV)
				h.writes++
				h.digest = nil
				return &TupleV{E: []Value{s.len, &IfaceV{}}}
			}
			bs := e.sliceBytes(s)
			if h.sums > 0 {
				h.digest = nil
			}
			h.msg = append(h.msg, bs...)
			h.writes++
			return &TupleV{E: []Value{e.c64(int64(len(bs))), &IfaceV{}}}
		case "Sum":
			e.hmacSettle(h)
			d := e.hmacDigest(h)
			h.sums++
			vals := make([]Value, len(d))
			arr := e.mkBytes(d, e.newObj("alloc", "hmac.Sum"))
			_ = vals
			src := &SliceV{arr: arr, off: e.c64(0), len: e.c64(int64(len(d))), cap: e.c64(int64(len(d)))}
			return e.appendOp(args[0].(*SliceV), src, nil)
		case "Reset":
			h.msg = nil
			h.symLens = nil
			h.acc, h.accChunks, h.accLens = nil, nil, nil
			h.digest = nil
			h.resets++
			return &TupleV{}
		case "Size":
			return e.c64(int64(h.width))
		case "BlockSize":
			if h.alg == "sha512" {
				return e.c64(128)
			}
			return e.c64(64)
		}
	case "fmterror":
		rec := ov.data.(*fmtRecord)
		switch method {
		case "Error":
			return rec.str
		case "Unwrap":
			if rec.wrapped != nil {
				return rec.wrapped
			}
			return &IfaceV{}
		}
	case "runtime.Error":
		if method == "Error" {
			return e.constString("runtime error: " + ov.data.(string))
		}
	case "panicval":
		_ = tb
	}
	if h, ok := opaqueMethods[ov.kind+"."+method]; ok {
		return h(e, ov, args, c)
	}
	panic(e.unsupported("method " + method + " on opaque " + ov.kind))
}

var opaqueMethods = map[string]func(e *Exec, ov *OpaqueV, args []Value, c *ssa.CallCommon) Value{}

// ---------- sync.Pool ----------

func poolNewField(c *Cell) *Cell {
	st := c.typ.Underlying().(*types.Struct)
	for i := 0; i < st.NumFields(); i++ {
		if st.Field(i).Name() == "New" {
			return c.kids[i]
		}
	}
	return nil
}

func inPoolGet(e *Exec, args []Value, site *ssa.CallCommon) Value {
	p := args[0].(*PtrV)
	if p.c == nil {
		e.nilDeref()
	}
	if lst := e.poolState[p.c]; len(lst) > 0 {
		v := lst[len(lst)-1]
		e.poolState[p.c] = lst[:len(lst)-1]
		e.markPooled(v, false)
		return v
	}
	nf := poolNewField(p.c)
	fv, _ := nf.v.(*FuncV)
	if fv == nil || (fv.fn == nil && fv.name == "") {
		return &IfaceV{}
	}
	v := e.call(fv, nil, nil)
	if e.opaque["pooladv"] == true {
		e.havocPooled(v)
	}
	e.opaque["poolgets"] = e.opaque["poolgets"].(int) + 1
	return v
}

func inPoolPut(e *Exec, args []Value, site *ssa.CallCommon) Value {
	p := args[0].(*PtrV)
	if p.c == nil {
		e.nilDeref()
	}
	e.poolState[p.c] = append(e.poolState[p.c], args[1])
	e.markPooled(args[1], true)
	return &TupleV{}
}

// markPooled flags the objects directly reachable from a pooled value.
func (e *Exec) markPooled(v Value, on bool) {
	seen := map[*Obj]bool{}
	e.walkObjs(v, func(o *Obj) {
		if o != nil && !seen[o] && o.kind != "const" && o.kind != "global" {
			seen[o] = true
			o.pooled = on
		}
	}, map[*Cell]bool{})
}

func (e *Exec) walkObjs(v Value, f func(*Obj), seen map[*Cell]bool) {
	switch x := v.(type) {
	case *IfaceV:
		if x.v != nil {
			e.walkObjs(x.v, f, seen)
		}
	case *PtrV:
		if x.c != nil && !seen[x.c] {
			seen[x.c] = true
			f(x.c.obj)
			e.walkCell(x.c, f, seen)
		}
	case *ElemPtrV:
		f(x.arr.obj)
	case *SliceV:
		if x.arr != nil {
			f(x.arr.obj)
			for _, c := range x.arr.cells {
				if !seen[c] {
					seen[c] = true
					e.walkCell(c, f, seen)
				}
			}
		}
	case *StrV:
		if x.arr != nil {
			f(x.arr.obj)
		}
	case *StructV:
		for _, fv := range x.F {
			e.walkObjs(fv, f, seen)
		}
	case *ArrayV:
		for _, fv := range x.E {
			e.walkObjs(fv, f, seen)
		}
	case *MapV:
		if x.m != nil {
			f(x.m.obj)
			for _, k := range x.m.keys {
				e.walkObjs(k, f, seen)
			}
			for _, c := range x.m.vals {
				if !seen[c] {
					seen[c] = true
					e.walkCell(c, f, seen)
				}
			}
		}
	case *FuncV:
		// a closure reaches the variables it captured
		for _, b := range x.bind {
			e.walkObjs(b, f, seen)
		}
		if x.recv != nil {
			e.walkObjs(x.recv, f, seen)
		}
	}
}

func (e *Exec) walkCell(c *Cell, f func(*Obj), seen map[*Cell]bool) {
	if c.kids != nil {
		for _, k := range c.kids {
			e.walkCell(k, f, seen)
		}
		return
	}
	if c.arr != nil {
		for _, k := range c.arr.cells {
			e.walkCell(k, f, seen)
		}
		return
	}
	if c.v != nil {
		if _, ok := c.v.(*Term); !ok {
			e.walkObjs(c.v, f, seen)
		}
	}
}

// havocPooled overwrites scalar content reachable from a freshly created pool
// object with fresh variables (an adversary scribbled on the buffer).
func (e *Exec) havocPooled(v Value) {
	var cells []*Cell
	seen := map[*Cell]bool{}
	var walk func(c *Cell)
	walk = func(c *Cell) {
		if seen[c] {
			return
		}
		seen[c] = true
		if c.kids != nil {
			for _, k := range c.kids {
				walk(k)
			}
			return
		}
		if c.arr != nil {
			for _, k := range c.arr.cells {
				walk(k)
			}
			return
		}
		switch x := c.v.(type) {
		case *Term:
			cells = append(cells, c)
		case *SliceV:
			if x.arr != nil {
				for _, k := range x.arr.cells {
					walk(k)
				}
				// arbitrary length within capacity
				l := e.freshVar("pool_len", 64)
				e.addPC(e.tb.Ule(l, x.cap))
				e.setLeaf(c, &SliceV{arr: x.arr, off: x.off, len: l, cap: x.cap})
			}
		case *PtrV:
			if x.c != nil {
				walk(x.c)
			}
		}
	}
	if iv, ok := v.(*IfaceV); ok {
		if p, ok := iv.v.(*PtrV); ok && p.c != nil {
			walk(p.c)
		}
	}
	for _, c := range cells {
		t := c.v.(*Term)
		e.setLeaf(c, e.freshVar("pool_junk", t.w))
	}
}

func (e *Exec) freshVar(base string, w int) *Term {
	e.nondetSeq[base]++
	name := base
	if e.nondetSeq[base] > 1 {
		name = fmt.Sprintf("%s#%d", base, e.nondetSeq[base])
	}
	if v, ok := e.cfg.Concrete[name]; ok {
		return e.tb.Const(w, v)
	}
	if e.cfg.Concrete != nil {
		return e.tb.Const(w, 0)
	}
	t := e.tb.Var(name, w)
	e.nondets = append(e.nondets, t)
	return t
}

// ---------- strings ----------

func isSpaceTerm(e *Exec, b *Term) *Term {
	tb := e.tb
	r := tb.False()
	for _, c := range []byte{' ', '\t', '\n', '\v', '\f', '\r'} {
		r = tb.Or(r, tb.Eq(b, tb.Const(8, uint64(c))))
	}
	return r
}

func inTrimSpace(e *Exec, args []Value, site *ssa.CallCommon) Value {
	s := args[0].(*StrV)
	bs := e.strBytes(s)
	tb := e.tb
	lo, hi := 0, len(bs)
	nonASCII := func(b *Term) {
		c := tb.Not(tb.Ult(b, tb.Const(8, 0x80)))
		if !c.IsFalse() && e.branch(c, "trimspace-nonascii") {
			panic(pathAbort{"bound", "strings.TrimSpace on a non-ASCII boundary byte (Unicode white space is outside the modelled contract)"})
		}
	}
	for lo < hi {
		nonASCII(bs[lo])
		if !e.branch(isSpaceTerm(e, bs[lo]), "trimspace") {
			break
		}
		lo++
	}
	for hi > lo {
		nonASCII(bs[hi-1])
		if !e.branch(isSpaceTerm(e, bs[hi-1]), "trimspace") {
			break
		}
		hi--
	}
	return &StrV{arr: s.arr, off: tb.Add(s.off, e.c64(int64(lo))), len: e.c64(int64(hi - lo))}
}

func inCaseMap(e *Exec, args []Value, upper bool) Value {
	s := args[0].(*StrV)
	bs := e.strBytes(s)
	tb := e.tb
	any := tb.False()
	for _, b := range bs {
		any = tb.Or(any, tb.Not(tb.Ult(b, tb.Const(8, 0x80))))
	}
	if !any.IsFalse() && e.branch(any, "casemap-nonascii") {
		panic(pathAbort{"bound", "strings.ToUpper/ToLower on non-ASCII input (Unicode case mapping is outside the modelled contract)"})
	}
	out := make([]*Term, len(bs))
	changed := false
	for i, b := range bs {
		var isL *Term
		var delta uint64
		if upper {
			isL = tb.And(tb.Ule(tb.Const(8, 'a'), b), tb.Ule(b, tb.Const(8, 'z')))
			delta = 0xe0 // -32
		} else {
			isL = tb.And(tb.Ule(tb.Const(8, 'A'), b), tb.Ule(b, tb.Const(8, 'Z')))
			delta = 32
		}
		out[i] = tb.Ite(isL, tb.Add(b, tb.Const(8, delta)), b)
		if out[i] != b {
			changed = true
		}
	}
	if !changed {
		return s
	}
	return e.mkString(out)
}

func inRepeat(e *Exec, args []Value, site *ssa.CallCommon) Value {
	s := args[0].(*StrV)
	cnt := args[1].(*Term)
	neg := e.tb.Slt(cnt, e.c64(0))
	if !neg.IsFalse() && e.branch(neg, "repeat-negative") {
		panic(&goPanic{val: e.runtimeError("strings: negative Repeat count"), site: e.site()})
	}
	n := e.concLen(cnt, "strings.Repeat count")
	bs := e.strBytes(s)
	if n*len(bs) > 1<<20 {
		panic(pathAbort{"bound", "strings.Repeat result too large"})
	}
	var out []*Term
	for i := 0; i < n; i++ {
		out = append(out, bs...)
	}
	if len(out) == 0 {
		return e.constString("")
	}
	return e.mkString(out)
}

func (e *Exec) stringSliceValue(parts []*StrV) Value {
	st := types.Typ[types.String]
	a := e.newArr(st, len(parts), e.newObj("alloc", "[]string"), func(i int) Value { return parts[i] })
	n := e.c64(int64(len(parts)))
	return &SliceV{arr: a, off: e.c64(0), len: n, cap: n}
}

func inSplit(e *Exec, sv, sepv Value, nT *Term) Value {
	s := sv.(*StrV)
	sep, ok := e.concreteString(sepv.(*StrV))
	if !ok || len(sep) != 1 {
		panic(e.unsupported("strings.Split with non-constant or multi-byte separator"))
	}
	limit := -1
	if nT != nil {
		if !nT.IsConst() {
			panic(e.unsupported("strings.SplitN with symbolic n"))
		}
		limit = int(int64(nT.val))
		if limit == 0 {
			return &SliceV{off: e.c64(0), len: e.c64(0), cap: e.c64(0)}
		}
	}
	bs := e.strBytes(s)
	tb := e.tb
	var parts []*StrV
	start := 0
	for i := 0; i < len(bs); i++ {
		if limit > 0 && len(parts) == limit-1 {
			break
		}
		if e.branch(tb.Eq(bs[i], tb.Const(8, uint64(sep[0]))), "split") {
			parts = append(parts, &StrV{arr: s.arr, off: tb.Add(s.off, e.c64(int64(start))), len: e.c64(int64(i - start))})
			start = i + 1
		}
	}
	parts = append(parts, &StrV{arr: s.arr, off: tb.Add(s.off, e.c64(int64(start))), len: e.c64(int64(len(bs) - start))})
	return e.stringSliceValue(parts)
}

func inContains(e *Exec, args []Value, site *ssa.CallCommon) Value {
	s, ok1 := e.concreteString(args[0].(*StrV))
	sub, ok2 := e.concreteString(args[1].(*StrV))
	if ok1 && ok2 {
		return e.tb.Bool(strings.Contains(s, sub))
	}
	hv, nv := args[0].(*StrV), args[1].(*StrV)
	if hv.len.IsConst() && nv.len.IsConst() {
		// exact: some window of the haystack equals the needle
		hs, ns := e.strBytes(hv), e.strBytes(nv)
		found := e.tb.False()
		for i := 0; i+len(ns) <= len(hs); i++ {
			eq := e.tb.True()
			for j := range ns {
				eq = e.tb.And(eq, e.tb.Eq(hs[i+j], ns[j]))
			}
			found = e.tb.Or(found, eq)
		}
		return found
	}
	// symbolic length: unconstrained (both outcomes are explored; a model that depends on it is
	// subject to the native replay like every other model)
	return e.freshVar("strings.Contains", 0)
}

// ---------- fmt ----------

type fmtRecord struct {
	format  string
	args    []Value
	str     *StrV
	wrapped Value
	exact   bool
}

// formatValue renders one argument; returns the piece and whether it is exact.
func (e *Exec) formatArg(verb byte, a Value) (*StrV, bool) {
	if iv, ok := a.(*IfaceV); ok {
		if iv.typ == nil && iv.v == nil {
			return e.constString("<nil>"), true
		}
		// error / Stringer values
		if iv.typ == nil {
			if ov, ok := iv.v.(*OpaqueV); ok {
				if ov.kind == "fmterror" {
					return ov.data.(*fmtRecord).str, ov.data.(*fmtRecord).exact
				}
				if ov.kind == "runtime.Error" {
					return e.constString("runtime error: " + ov.data.(string)), true
				}
			}
			return e.opaqueString("fmt_opaque", 40, &fmtRecord{format: "%" + string(verb), args: []Value{a}}), false
		}
		if verb != 'd' && verb != 'x' {
			for _, mname := range []string{"Error", "String"} {
				ms := e.prog.MethodSets.MethodSet(iv.typ)
				for i := 0; i < ms.Len(); i++ {
					sel := ms.At(i)
					if sel.Obj().Name() == mname {
						sig := sel.Obj().Type().(*types.Signature)
						if sig.Params().Len() == 0 && sig.Results().Len() == 1 && isString(sig.Results().At(0).Type()) {
							fn := e.prog.MethodValue(sel)
							if fn != nil {
								// like fmt, a panic inside Error()/String() is caught and rendered
								var r Value
								panicked := false
								func() {
									defer func() {
										if x := recover(); x != nil {
											if _, ok := x.(*goPanic); ok {
												panicked = true
												return
											}
											panic(x)
										}
									}()
									saveF, saveD := e.curFrame, e.depth
									defer func() { e.curFrame, e.depth = saveF, saveD }()
									r = e.call(&FuncV{fn: fn}, []Value{iv.v}, nil)
								}()
								if panicked {
									return e.constString("%!v(PANIC=" + mname + " method)"), false
								}
								return r.(*StrV), true
							}
						}
					}
				}
			}
		}
		return e.formatScalar(verb, iv.v, iv.typ)
	}
	return e.formatScalar(verb, a, nil)
}

func (e *Exec) formatScalar(verb byte, v Value, t types.Type) (*StrV, bool) {
	switch x := v.(type) {
	case *StrV:
		if verb == 'q' {
			q := e.quoteString(x)
			return q, q.len.IsConst()
		}
		return x, true
	case *Term:
		signed := true
		if t != nil {
			_, signed, _ = intWidth(t)
		}
		if x.IsConst() {
			if x.w == 0 {
				return e.constString(fmt.Sprint(x.val == 1)), true
			}
			if verb == 'x' {
				return e.constString(fmt.Sprintf("%x", x.val)), true
			}
			if signed {
				return e.constString(fmt.Sprintf("%d", sext64(x.val, x.w))), true
			}
			return e.constString(fmt.Sprintf("%d", x.val)), true
		}
		s := e.opaqueString("fmt_int", 20, &fmtRecord{format: "%d", args: []Value{x, e.tb.Bool(signed)}})
		e.addPCKind(e.tb.Ule(e.c64(1), s.len), 'a') // the decimal text of an integer is never empty
		e.decStr[s.arr] = decInfo{val: x, signed: signed}
		return s, false
	case *SliceV:
		return e.opaqueString("fmt_slice", 40, &fmtRecord{format: "%v", args: []Value{x}}), false
	}
	return e.opaqueString("fmt_value", 40, &fmtRecord{format: "%v", args: []Value{v}}), false
}

type decInfo struct {
	val    *Term
	signed bool
}

// opaqueString: a string whose exact text is not modelled (arbitrary content,
// arbitrary length up to max); rec records what it stands for.
func (e *Exec) opaqueString(base string, max int, rec *fmtRecord) *StrV {
	ts := make([]*Term, max)
	e.nondetSeq["$"+base]++
	k := e.nondetSeq["$"+base]
	for i := range ts {
		ts[i] = e.tb.Var(fmt.Sprintf("$%s%d_%d", base, k, i), 8)
	}
	l := e.tb.Var(fmt.Sprintf("$%s%d_len", base, k), 64)
	e.addPC(e.tb.Ule(l, e.c64(int64(max))))
	a := e.mkBytes(ts, e.newObj("alloc", "opaque-string"))
	a.ro = true
	s := &StrV{arr: a, off: e.c64(0), len: l}
	e.strMeta[a] = rec
	return s
}

func (e *Exec) quoteString(x *StrV) *StrV {
	if s, ok := e.concreteString(x); ok {
		return e.constString(fmt.Sprintf("%q", s))
	}
	rec := &fmtRecord{format: "%q", args: []Value{x}}
	return e.opaqueString("fmt_quote", 4*64+2, rec)
}

func inQuote(e *Exec, args []Value, site *ssa.CallCommon) Value {
	return e.quoteString(args[0].(*StrV))
}

func (e *Exec) sprintf(format string, args []Value) *fmtRecord {
	rec := &fmtRecord{format: format, args: args, exact: true}
	var pieces []*StrV
	ai := 0
	lit := []byte{}
	flush := func() {
		if len(lit) > 0 {
			pieces = append(pieces, e.constString(string(lit)))
			lit = nil
		}
	}
	for i := 0; i < len(format); i++ {
		c := format[i]
		if c != '%' {
			lit = append(lit, c)
			continue
		}
		i++
		if i >= len(format) {
			break
		}
		// flags and width
		flagged := false
		for i < len(format) && strings.IndexByte("#+- 0123456789.", format[i]) >= 0 {
			flagged = true
			i++
		}
		if i >= len(format) {
			break
		}
		verb := format[i]
		if verb == '%' {
			lit = append(lit, '%')
			continue
		}
		if flagged || strings.IndexByte("sdvqwx", verb) < 0 {
			// formatting not modelled: an opaque piece that records its argument
			flush()
			if ai < len(args) {
				a := args[ai]
				ai++
				pieces = append(pieces, e.opaqueString("fmt_opaque", 40, &fmtRecord{format: "%" + string(verb), args: []Value{a}}))
			}
			rec.exact = false
			continue
		}
		flush()
		if ai >= len(args) {
			pieces = append(pieces, e.constString("%!"+string(verb)+"(MISSING)"))
			continue
		}
		a := args[ai]
		ai++
		if verb == 'w' {
			rec.wrapped = a
		}
		p, exact := e.formatArg(verb, a)
		if !exact {
			rec.exact = false
		}
		pieces = append(pieces, p)
	}
	flush()
	// concatenate: exact when every piece has concrete length
	allConc := true
	for _, p := range pieces {
		if !p.len.IsConst() {
			allConc = false
		}
	}
	if len(pieces) == 1 {
		rec.str = pieces[0] // keeps the meaning attached to the piece (e.g. "decimal text of x")
		return rec
	}
	if allConc {
		var bs []*Term
		for _, p := range pieces {
			bs = append(bs, e.strBytes(p)...)
		}
		if len(bs) == 0 {
			rec.str = e.constString("")
		} else {
			rec.str = e.mkString(bs)
		}
	} else {
		rec.exact = false
		// exact bytes for the leading pieces of concrete length, then the rest as one opaque tail
		var head []*Term
		k := 0
		for k < len(pieces) && pieces[k].len.IsConst() {
			head = append(head, e.strBytes(pieces[k])...)
			k++
		}
		tail := e.opaqueString("fmt_sprintf", 64, rec)
		if len(head) == 0 {
			rec.str = tail
		} else {
			bs := append(head, e.windowBytes(tail.arr, 0)...)
			r := e.mkString(bs)
			r.len = e.tb.Add(e.c64(int64(len(head))), tail.len)
			e.strMeta[r.arr] = rec
			rec.str = r
		}
		e.strPieces[rec.str.arr] = pieces
	}
	return rec
}

func ifaceArgs(e *Exec, v Value) []Value {
	s := v.(*SliceV)
	n := e.concLen(s.len, "variadic length")
	out := make([]Value, n)
	for i := 0; i < n; i++ {
		out[i] = e.arrGet(s.arr, e.tb.Add(s.off, e.c64(int64(i))))
	}
	return out
}

func inSprintf(e *Exec, args []Value, site *ssa.CallCommon) Value {
	format := e.mustConcreteString(args[0], "fmt.Sprintf format")
	return e.sprintf(format, ifaceArgs(e, args[1])).str
}

func inSprint(e *Exec, args []Value, site *ssa.CallCommon) Value {
	as := ifaceArgs(e, args[0])
	f := strings.Repeat("%v", len(as))
	return e.sprintf(f, as).str
}

func inErrorf(e *Exec, args []Value, site *ssa.CallCommon) Value {
	format := e.mustConcreteString(args[0], "fmt.Errorf format")
	rec := e.sprintf(format, ifaceArgs(e, args[1]))
	return &IfaceV{typ: nil, v: &OpaqueV{kind: "fmterror", data: rec}}
}

func inFormatInt(e *Exec, args []Value, site *ssa.CallCommon) Value {
	x := args[0].(*Term)
	if len(args) > 1 {
		if b := args[1].(*Term); !b.IsConst() || b.val != 10 {
			panic(e.unsupported("strconv.FormatInt base != 10"))
		}
	}
	s, _ := e.formatScalar('d', x, types.Typ[types.Int64])
	return s
}

// ---------- misc ----------

func inRandRead(e *Exec, args []Value, site *ssa.CallCommon) Value {
	s := args[0].(*SliceV)
	n := e.concLen(s.len, "rand.Read buffer length")
	e.opaque["randcalls"] = e.opaque["randcalls"].(int) + 1
	// error outcome of the OS source
	if e.opaque["randfail"] == true {
		fail := e.freshVar("rand_fails", 0)
		if e.branch(fail, "rand.Read-error") {
			rec := &fmtRecord{format: "rand: read error", exact: true, str: e.constString("rand: read error")}
			return &TupleV{E: []Value{e.c64(0), &IfaceV{typ: nil, v: &OpaqueV{kind: "fmterror", data: rec}}}}
		}
	}
	var stream []*Term
	for i := 0; i < n; i++ {
		v := e.freshVar(fmt.Sprintf("rand_%d", i), 8)
		stream = append(stream, v)
		e.arrSetTrail(s.arr, e.tb.Add(s.off, e.c64(int64(i))), v)
	}
	e.randStreams = append(e.randStreams, stream)
	e.randLens = append(e.randLens, e.c64(int64(n)))
	return &TupleV{E: []Value{e.c64(int64(n)), &IfaceV{}}}
}

func inMakeNoZero(e *Exec, args []Value, site *ssa.CallCommon) Value {
	n := e.concLen(args[0].(*Term), "MakeNoZero length")
	a := e.newArr(e.byteType(), n, e.newObj("alloc", "MakeNoZero"), nil)
	return &SliceV{arr: a, off: e.c64(0), len: e.c64(int64(n)), cap: e.c64(int64(n))}
}

func inTimeNow(e *Exec, args []Value, site *ssa.CallCommon) Value {
	// time.Time{wall, ext, loc}: no monotonic reading, seconds in ext
	sec := e.freshVar("now_unix", 64)
	e.addPC(e.tb.And(e.tb.Sle(e.c64(0), sec), e.tb.Slt(sec, e.c64(1<<40))))
	ext := e.tb.Add(sec, e.c64(62135596800))
	return &StructV{F: []Value{e.tb.Const(64, 0), ext, &PtrV{}}}
}

// rand.Reader.Read called directly: only the io.Reader contract holds for a (replaceable)
// reader - it may deliver fewer bytes than asked for.  n in [1, len(p)] bytes are filled.
func inReaderRead(e *Exec, args []Value, site *ssa.CallCommon) Value {
	s := args[1].(*SliceV)
	ln := e.concLen(s.len, "Reader.Read buffer length")
	e.opaque["randcalls"] = e.opaque["randcalls"].(int) + 1
	if ln == 0 {
		e.randStreams = append(e.randStreams, nil)
		e.randLens = append(e.randLens, e.c64(0))
		return &TupleV{E: []Value{e.c64(0), &IfaceV{}}}
	}
	n := e.freshVar("rand_n", 64)
	if e.cfg.Concrete == nil {
		e.addPCKind(e.tb.And(e.tb.Ule(e.c64(1), n), e.tb.Ule(n, e.c64(int64(ln)))), 'a')
	}
	var stream []*Term
	for i := 0; i < ln; i++ {
		v := e.freshVar(fmt.Sprintf("rand_%d", i), 8)
		stream = append(stream, v)
		idx := e.tb.Add(s.off, e.c64(int64(i)))
		old := e.arrGet(s.arr, idx).(*Term)
		e.arrSetTrail(s.arr, idx, e.tb.Ite(e.tb.Ult(e.c64(int64(i)), n), v, old))
	}
	e.randStreams = append(e.randStreams, stream)
	e.randLens = append(e.randLens, n)
	return &TupleV{E: []Value{n, &IfaceV{}}}
}

// strings.Replace(All) for a one-byte old string: one path per set of matching positions
func inReplace(e *Exec, sv, oldv, newv Value, n *Term) Value {
	s := sv.(*StrV)
	old, ok1 := e.concreteString(oldv.(*StrV))
	nw, ok2 := e.concreteString(newv.(*StrV))
	if !ok1 || !ok2 || len(old) != 1 || (n != nil && (!n.IsConst() || int64(n.val) >= 0)) {
		panic(e.unsupported("strings.Replace with symbolic or multi-byte pattern or a count"))
	}
	bs := e.strBytes(s)
	var out []*Term
	changed := false
	for _, c := range bs {
		if e.branch(e.tb.Eq(c, e.tb.Const(8, uint64(old[0]))), "replace-match") {
			changed = true
			for i := 0; i < len(nw); i++ {
				out = append(out, e.tb.Const(8, uint64(nw[i])))
			}
		} else {
			out = append(out, c)
		}
	}
	if !changed {
		return s
	}
	if len(out) == 0 {
		return e.constString("")
	}
	return e.mkString(out)
}

func inIndexByte(e *Exec, args []Value, site *ssa.CallCommon) Value {
	bs := e.strBytes(args[0].(*StrV))
	c := args[1].(*Term)
	for i, b := range bs {
		if e.branch(e.tb.Eq(b, c), "indexbyte") {
			return e.c64(int64(i))
		}
	}
	return e.tb.Const(64, ^uint64(0))
}
