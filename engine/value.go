package main

// Symbolic values and the memory model of the SSA executor.

import (
	"fmt"
	"go/types"

	"golang.org/x/tools/go/ssa"
)

type Value interface{}

// Obj identifies an allocation for frame / ownership analysis.
type Obj struct {
	id     int
	kind   string // "global", "alloc", "nondet", "const", "pool", "intrinsic"
	label  string
	epoch  int  // call epoch in which it was allocated (0 = before the operation under test)
	prot   bool // protected: a write is a frame violation (caller data, package state)
	pooled bool // currently inside a pool (use after Put is a violation)
}

type Cell struct {
	typ  types.Type
	v    Value   // leaf value
	kids []*Cell // struct fields
	arr  *Arr    // array-typed cell
	obj  *Obj
}

// Arr is the backing store of arrays, slices and strings.
type Arr struct {
	id    int
	elem  types.Type
	cells []*Cell // concrete length
	obj   *Obj
	ro    bool // string data: never written
}

type StructV struct{ F []Value }
type ArrayV struct{ E []Value }
type PtrV struct {
	c    *Cell
	view types.Type // non-nil: reinterpret (unsafe) as pointer to this type
	// pointer to whole array cell is c with c.arr != nil
}
type ElemPtrV struct {
	arr *Arr
	idx *Term // symbolic element index (already bounds-checked)
}
type SliceV struct {
	arr           *Arr
	off, len, cap *Term
}
type StrV struct {
	arr      *Arr
	off, len *Term
}
type IfaceV struct {
	typ types.Type // nil => nil interface
	v   Value
}
type FuncV struct {
	fn   *ssa.Function
	bind []Value
	name string // intrinsic name when fn == nil
	recv Value  // bound receiver for intrinsic method values
}
type MapV struct{ m *MapObj }
type MapObj struct {
	keys []Value
	vals []*Cell
	kt   types.Type
	vt   types.Type
	obj  *Obj
}
type TupleV struct{ E []Value }
type OpaqueV struct {
	kind string
	data interface{}
}

func (e *Exec) newObj(kind, label string) *Obj {
	e.nextObj++
	return &Obj{id: e.nextObj, kind: kind, label: label, epoch: e.epoch}
}

func intWidth(t types.Type) (w int, signed bool, ok bool) {
	b, isB := t.Underlying().(*types.Basic)
	if !isB {
		return 0, false, false
	}
	switch b.Kind() {
	case types.Bool, types.UntypedBool:
		return 0, false, true
	case types.Int8:
		return 8, true, true
	case types.Int16:
		return 16, true, true
	case types.Int32, types.UntypedRune:
		return 32, true, true
	case types.Int, types.Int64, types.UntypedInt:
		return 64, true, true
	case types.Uint8:
		return 8, false, true
	case types.Uint16:
		return 16, false, true
	case types.Uint32:
		return 32, false, true
	case types.Uint, types.Uint64, types.Uintptr:
		return 64, false, true
	}
	return 0, false, false
}

func isString(t types.Type) bool {
	b, ok := t.Underlying().(*types.Basic)
	return ok && b.Info()&types.IsString != 0
}

func isFloat(t types.Type) bool {
	b, ok := t.Underlying().(*types.Basic)
	return ok && b.Info()&(types.IsFloat|types.IsComplex) != 0
}

// zero builds the zero Value of a type.
func (e *Exec) zero(t types.Type) Value {
	switch u := t.Underlying().(type) {
	case *types.Basic:
		if isString(t) {
			return &StrV{arr: nil, off: e.c64(0), len: e.c64(0)}
		}
		if u.Kind() == types.UnsafePointer {
			return &PtrV{}
		}
		if isFloat(t) {
			return &OpaqueV{kind: "float"}
		}
		w, _, ok := intWidth(t)
		if !ok {
			panic(e.unsupported("zero of basic type " + t.String()))
		}
		return e.tb.Const(w, 0)
	case *types.Struct:
		s := &StructV{F: make([]Value, u.NumFields())}
		for i := range s.F {
			s.F[i] = e.zero(u.Field(i).Type())
		}
		return s
	case *types.Array:
		a := &ArrayV{E: make([]Value, int(u.Len()))}
		for i := range a.E {
			a.E[i] = e.zero(u.Elem())
		}
		return a
	case *types.Pointer:
		return &PtrV{}
	case *types.Slice:
		return &SliceV{off: e.c64(0), len: e.c64(0), cap: e.c64(0)}
	case *types.Interface:
		return &IfaceV{}
	case *types.Signature:
		return &FuncV{}
	case *types.Map:
		return &MapV{}
	case *types.Chan:
		return &OpaqueV{kind: "chan"}
	case *types.Tuple:
		tv := &TupleV{E: make([]Value, u.Len())}
		for i := range tv.E {
			tv.E[i] = e.zero(u.At(i).Type())
		}
		return tv
	}
	panic(e.unsupported("zero of type " + t.String()))
}

func (e *Exec) c64(v int64) *Term { return e.tb.Const(64, uint64(v)) }

// newCell allocates a cell tree of type t initialised with value v (nil = zero).
func (e *Exec) newCell(t types.Type, obj *Obj, v Value) *Cell {
	c := &Cell{typ: t, obj: obj}
	switch u := t.Underlying().(type) {
	case *types.Struct:
		c.kids = make([]*Cell, u.NumFields())
		for i := range c.kids {
			var fv Value
			if v != nil {
				fv = v.(*StructV).F[i]
			}
			c.kids[i] = e.newCell(u.Field(i).Type(), obj, fv)
		}
	case *types.Array:
		n := int(u.Len())
		e.nextArr++
		a := &Arr{id: e.nextArr, elem: u.Elem(), cells: make([]*Cell, n), obj: obj}
		for i := range a.cells {
			var ev Value
			if v != nil {
				ev = v.(*ArrayV).E[i]
			}
			a.cells[i] = e.newCell(u.Elem(), obj, ev)
		}
		c.arr = a
	default:
		if v == nil {
			v = e.zero(t)
		}
		c.v = v
	}
	return c
}

func (e *Exec) newArr(elem types.Type, n int, obj *Obj, init func(i int) Value) *Arr {
	e.nextArr++
	a := &Arr{id: e.nextArr, elem: elem, cells: make([]*Cell, n), obj: obj}
	for i := range a.cells {
		var v Value
		if init != nil {
			v = init(i)
		}
		a.cells[i] = e.newCell(elem, obj, v)
	}
	return a
}

// load reads the (deep-copied) value of a cell.
func (e *Exec) loadCell(c *Cell) Value {
	if c.kids != nil {
		s := &StructV{F: make([]Value, len(c.kids))}
		for i, k := range c.kids {
			s.F[i] = e.loadCell(k)
		}
		return s
	}
	if c.arr != nil {
		a := &ArrayV{E: make([]Value, len(c.arr.cells))}
		for i, k := range c.arr.cells {
			a.E[i] = e.loadCell(k)
		}
		return a
	}
	return c.v
}

func (e *Exec) storeCell(c *Cell, v Value) {
	e.noteWrite(c.obj, "store")
	e.storeCellRaw(c, v)
}

func (e *Exec) storeCellRaw(c *Cell, v Value) {
	if c.kids != nil {
		s, ok := v.(*StructV)
		if !ok {
			panic(e.internal(fmt.Sprintf("store non-struct %T into struct cell %v", v, c.typ)))
		}
		for i, k := range c.kids {
			e.storeCellRaw(k, s.F[i])
		}
		return
	}
	if c.arr != nil {
		a, ok := v.(*ArrayV)
		if !ok {
			panic(e.internal(fmt.Sprintf("store non-array %T into array cell", v)))
		}
		for i, k := range c.arr.cells {
			e.storeCellRaw(k, a.E[i])
		}
		return
	}
	c.v = v
}

// ---------- array element access with symbolic index ----------

func isScalar(v Value) bool {
	_, ok := v.(*Term)
	return ok
}

// arrGet reads element idx (a 64-bit term, already known in range) of arr.
func (e *Exec) arrGet(a *Arr, idx *Term) Value {
	if idx.IsConst() {
		i := int(idx.val)
		if i < 0 || i >= len(a.cells) {
			panic(e.internal(fmt.Sprintf("arrGet index %d out of range %d", i, len(a.cells))))
		}
		return e.loadCell(a.cells[i])
	}
	n := len(a.cells)
	if n == 0 {
		panic(e.internal("arrGet symbolic index on empty array"))
	}
	if _, ok := a.cells[0].v.(*Term); ok && a.cells[0].kids == nil && a.cells[0].arr == nil {
		// scalar elements: balanced decision tree on the index bits (idx < n is known)
		ts := make([]*Term, n)
		for i := range ts {
			ts[i] = a.cells[i].v.(*Term)
		}
		return e.selectTree(idx, ts)
	}
	// non-scalar: fork over feasible indices
	i := e.concretize(idx, 0, n-1, "index")
	return e.loadCell(a.cells[i])
}

func (e *Exec) arrSet(a *Arr, idx *Term, v Value) {
	e.noteWrite(a.obj, "store")
	if a.ro {
		panic(e.internal("write to read-only array"))
	}
	if idx.IsConst() {
		e.storeCellRaw(a.cells[int(idx.val)], v)
		return
	}
	if t, ok := v.(*Term); ok {
		for i, c := range a.cells {
			old := c.v.(*Term)
			c.v = e.tb.Ite(e.tb.Eq(idx, e.c64(int64(i))), t, old)
		}
		return
	}
	i := e.concretize(idx, 0, len(a.cells)-1, "index")
	e.storeCellRaw(a.cells[i], v)
}

// ---------- helpers for byte strings ----------

func (e *Exec) byteType() types.Type { return types.Typ[types.Uint8] }

// mkBytes creates a fresh byte array holding the given terms.
func (e *Exec) mkBytes(ts []*Term, obj *Obj) *Arr {
	if obj == nil {
		obj = e.newObj("alloc", "bytes")
	}
	return e.newArr(e.byteType(), len(ts), obj, func(i int) Value { return ts[i] })
}

func (e *Exec) mkString(ts []*Term) *StrV {
	a := e.mkBytes(ts, e.newObj("alloc", "string"))
	a.ro = true
	return &StrV{arr: a, off: e.c64(0), len: e.c64(int64(len(ts)))}
}

func (e *Exec) constString(s string) *StrV {
	if v, ok := e.strConsts[s]; ok {
		return v
	}
	ts := make([]*Term, len(s))
	for i := 0; i < len(s); i++ {
		ts[i] = e.tb.Const(8, uint64(s[i]))
	}
	a := e.mkBytes(ts, &Obj{id: 0, kind: "const", label: "string-constant"})
	a.ro = true
	v := &StrV{arr: a, off: e.c64(0), len: e.c64(int64(len(s)))}
	e.strConsts[s] = v
	return v
}

// concLen returns the concrete value of a length term, concretising by
// solver-driven case split when it is symbolic.
func (e *Exec) concLen(t *Term, what string) int {
	if t.IsConst() {
		return int(int64(t.val))
	}
	return e.concretize(t, 0, 1<<24, what)
}

// strBytes returns the byte terms of a string (concrete length required).
func (e *Exec) strBytes(s *StrV) []*Term {
	n := e.concLen(s.len, "string length")
	out := make([]*Term, n)
	if n == 0 {
		return out
	}
	for i := 0; i < n; i++ {
		out[i] = e.arrGet(s.arr, e.tb.Add(s.off, e.c64(int64(i)))).(*Term)
	}
	return out
}

func (e *Exec) sliceBytes(s *SliceV) []*Term {
	n := e.concLen(s.len, "slice length")
	out := make([]*Term, n)
	for i := 0; i < n; i++ {
		out[i] = e.arrGet(s.arr, e.tb.Add(s.off, e.c64(int64(i)))).(*Term)
	}
	return out
}

// concreteString returns the Go string if every byte and the length are constants.
func (e *Exec) concreteString(s *StrV) (string, bool) {
	if !s.len.IsConst() || !s.off.IsConst() {
		return "", false
	}
	n := int(s.len.val)
	bs := make([]byte, n)
	for i := 0; i < n; i++ {
		t, ok := s.arr.cells[int(s.off.val)+i].v.(*Term)
		if !ok || !t.IsConst() {
			return "", false
		}
		bs[i] = byte(t.val)
	}
	return string(bs), true
}

func (e *Exec) mustConcreteString(v Value, what string) string {
	s, ok := e.concreteString(v.(*StrV))
	if !ok {
		panic(e.unsupported("symbolic string where a concrete one is required: " + what))
	}
	return s
}

// selectTree builds ts[idx] as a binary decision tree over the low bits of idx.
// Equal subtrees collapse through hash-consing, so sparse constant tables stay small.
func (e *Exec) selectTree(idx *Term, ts []*Term) *Term {
	// small index ranges: equality chain (cheap for the integer back end);
	// the range is bounded by a syntactic upper bound of the index
	if ub := upperBound(idx); ub < uint64(len(ts)-1) {
		ts = ts[:ub+1]
	}
	if len(ts) <= 64 {
		res := ts[len(ts)-1]
		for i := len(ts) - 2; i >= 0; i-- {
			res = e.tb.Ite(e.tb.Eq(idx, e.tb.Const(idx.w, uint64(i))), ts[i], res)
		}
		return res
	}
	n := len(ts)
	k := 0
	for (1 << uint(k)) < n {
		k++
	}
	var build func(bit int, base int) *Term
	build = func(bit int, base int) *Term {
		if base >= n {
			return ts[n-1]
		}
		if bit < 0 {
			return ts[base]
		}
		hi := build(bit-1, base|1<<uint(bit))
		lo := build(bit-1, base)
		if hi == lo {
			return lo
		}
		b := e.tb.Eq(e.tb.Extract(idx, bit, bit), e.tb.Const(1, 1))
		return e.tb.Ite(b, hi, lo)
	}
	return build(k-1, 0)
}

// upperBound: a cheap syntactic upper bound of an unsigned term.
func upperBound(t *Term) uint64 {
	switch t.op {
	case OpConst:
		return t.val
	case OpZExt:
		return upperBound(t.args[0])
	case OpBAnd:
		a, b := upperBound(t.args[0]), upperBound(t.args[1])
		if a < b {
			return a
		}
		return b
	case OpAdd:
		a, b := upperBound(t.args[0]), upperBound(t.args[1])
		if a+b >= a && (t.w >= 64 || a+b <= mask(t.w)) {
			return a + b
		}
	case OpIte:
		a, b := upperBound(t.args[1]), upperBound(t.args[2])
		if a > b {
			return a
		}
		return b
	case OpURem:
		if t.args[1].IsConst() && t.args[1].val > 0 {
			return t.args[1].val - 1
		}
	case OpLShr:
		if t.args[1].IsConst() && t.args[1].val < 64 {
			return upperBound(t.args[0]) >> t.args[1].val
		}
	}
	if t.w >= 64 {
		return ^uint64(0)
	}
	return mask(t.w)
}
