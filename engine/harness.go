package main

// Intrinsics visible to harness code (bodyless functions verif* declared in the
// overlay file zz_verif_rt.go of each package under test).

import (
	"fmt"
	"go/types"
	"math/big"
	"sort"
	"strings"
	"time"

	"golang.org/x/tools/go/ssa"
)

type Obligation struct {
	Name    string            `json:"name"`
	Path    int               `json:"path"`
	Status  string            `json:"status"` // proved | folded | violated | unknown
	Backend string            `json:"backend,omitempty"`
	DurS    float64           `json:"dur_s"`
	Size    int               `json:"smt_nodes,omitempty"`
	Model   map[string]uint64 `json:"model,omitempty"`
	Note    string            `json:"note,omitempty"`
	Cross   string            `json:"cross,omitempty"`
	Digests [][]int           `json:"digests,omitempty"`
}

var harnessIntrinsics map[string]intrinsicFn

func registerHarnessIntrinsics() {
	harnessIntrinsics = map[string]intrinsicFn{
		"verifU8":     func(e *Exec, a []Value, s *ssa.CallCommon) Value { return e.nondet(a[0], 8) },
		"verifU16":    func(e *Exec, a []Value, s *ssa.CallCommon) Value { return e.nondet(a[0], 16) },
		"verifU32":    func(e *Exec, a []Value, s *ssa.CallCommon) Value { return e.nondet(a[0], 32) },
		"verifU64":    func(e *Exec, a []Value, s *ssa.CallCommon) Value { return e.nondet(a[0], 64) },
		"verifUint":   func(e *Exec, a []Value, s *ssa.CallCommon) Value { return e.nondet(a[0], 64) },
		"verifInt":    func(e *Exec, a []Value, s *ssa.CallCommon) Value { return e.nondet(a[0], 64) },
		"verifI64":    func(e *Exec, a []Value, s *ssa.CallCommon) Value { return e.nondet(a[0], 64) },
		"verifBool":   func(e *Exec, a []Value, s *ssa.CallCommon) Value { return e.nondet(a[0], 0) },
		"verifBytes":  hBytes,
		"verifString": hString,
		"verifCase":   hCase,
		"verifAssume": hAssume,
		"verifAssert": hAssert,
		"verifFail":   hFail,
		"verifReach":  func(e *Exec, a []Value, s *ssa.CallCommon) Value { return &TupleV{} },
		"verifObserve": func(e *Exec, a []Value, s *ssa.CallCommon) Value {
			e.observes = append(e.observes, Observation{Name: e.mustConcreteString(a[0], "observe name"), Val: e.snapshotValue(a[1])})
			return &TupleV{}
		},
		"verifNative": func(e *Exec, a []Value, s *ssa.CallCommon) Value { return e.tb.False() },
		"verifAnd":    func(e *Exec, a []Value, s *ssa.CallCommon) Value { return e.tb.And(a[0].(*Term), a[1].(*Term)) },
		"verifOr":     func(e *Exec, a []Value, s *ssa.CallCommon) Value { return e.tb.Or(a[0].(*Term), a[1].(*Term)) },
		"verifImplies": func(e *Exec, a []Value, s *ssa.CallCommon) Value {
			return e.tb.Implies(a[0].(*Term), a[1].(*Term))
		},
		"verifIteU64": func(e *Exec, a []Value, s *ssa.CallCommon) Value {
			return e.tb.Ite(a[0].(*Term), a[1].(*Term), a[2].(*Term))
		},
		"verifIteInt": func(e *Exec, a []Value, s *ssa.CallCommon) Value {
			return e.tb.Ite(a[0].(*Term), a[1].(*Term), a[2].(*Term))
		},
		"verifIteU8": func(e *Exec, a []Value, s *ssa.CallCommon) Value {
			return e.tb.Ite(a[0].(*Term), a[1].(*Term), a[2].(*Term))
		},
		"verifStrEq":      hStrEq,
		"verifBytesEq":    hBytesEq,
		"verifPanics":     hPanics,
		"verifBeginOp":    hBeginOp,
		"verifEndOp":      hEndOp,
		"verifProtect":    hProtect,
		"verifHMACCount":  func(e *Exec, a []Value, s *ssa.CallCommon) Value { return e.c64(int64(len(e.hmacCalls))) },
		"verifHMACAlg":    hHMACAlg,
		"verifHMACKey":    func(e *Exec, a []Value, s *ssa.CallCommon) Value { return hHMACPart(e, a, "key") },
		"verifHMACMsg":    func(e *Exec, a []Value, s *ssa.CallCommon) Value { return hHMACPart(e, a, "msg") },
		"verifHMACDigest": func(e *Exec, a []Value, s *ssa.CallCommon) Value { return hHMACPart(e, a, "digest") },
		"verifHMACSums":   hHMACSums,
		"verifUseModelDigests": func(e *Exec, a []Value, s *ssa.CallCommon) Value {
			e.opaque["modeldigests"] = true
			return &TupleV{}
		},
		"verifSymbolic":        func(e *Exec, a []Value, s *ssa.CallCommon) Value { return e.tb.Bool(e.cfg.Concrete == nil) },
		"verifMul128Le":        hMul128Le,
		"verifFrameViolations": hFrameViolations,
		"verifPoolAdversary": func(e *Exec, a []Value, s *ssa.CallCommon) Value {
			e.opaque["pooladv"] = a[0].(*Term).IsTrue()
			return &TupleV{}
		},
		"verifRandMayFail": func(e *Exec, a []Value, s *ssa.CallCommon) Value {
			e.opaque["randfail"] = a[0].(*Term).IsTrue()
			return &TupleV{}
		},
		"verifRandCalls": func(e *Exec, a []Value, s *ssa.CallCommon) Value { return e.c64(int64(e.opaque["randcalls"].(int))) },
		"verifTraceOn": func(e *Exec, a []Value, s *ssa.CallCommon) Value {
			e.opaque["tracing"] = a[0].(*Term).IsTrue()
			return &TupleV{}
		},
		"verifDependsOn":  hDependsOn,
		"verifUF":         hUF,
		"verifUFv":        hUFv,
		"verifHTTP":       hHTTP,
		"verifHTTPStatus": func(e *Exec, a []Value, s *ssa.CallCommon) Value { return e.httpOf(a[0]).status },
		"verifHTTPSets": func(e *Exec, a []Value, s *ssa.CallCommon) Value {
			st := e.httpOf(a[0])
			return &TupleV{E: []Value{e.c64(int64(st.statusSets)), e.c64(int64(st.bodySets))}}
		},
		"verifHTTPResp": hHTTPResp,
		"verifJSString": func(e *Exec, a []Value, s *ssa.CallCommon) Value {
			return e.newJS(&jsVal{what: "arg", typ: e.c64(4), str: a[0].(*StrV)})
		},
		"verifJSNumber": func(e *Exec, a []Value, s *ssa.CallCommon) Value {
			return e.newJS(&jsVal{what: "arg", typ: e.c64(3), num: a[0].(*Term)})
		},
		"verifJSOther": func(e *Exec, a []Value, s *ssa.CallCommon) Value {
			// a value of an arbitrary JS type given by the tag (0..7) without usable payload
			return e.newJS(&jsVal{what: "arg", typ: a[0].(*Term), str: e.constString("x"), num: e.c64(1)})
		},
		"verifJSResult": hJSResult,
		"verifJSRegistered": func(e *Exec, a []Value, s *ssa.CallCommon) Value {
			name := e.mustConcreteString(a[0], "global name")
			n := 0
			for _, r := range e.jsGlobals {
				if r.name == name {
					n++
				}
			}
			return e.c64(int64(n))
		},
		"verifJSRegisteredFn": func(e *Exec, a []Value, s *ssa.CallCommon) Value {
			name := e.mustConcreteString(a[0], "global name")
			for _, r := range e.jsGlobals {
				if r.name == name {
					if fv, ok := r.fn.(*FuncV); ok && fv.fn != nil {
						return e.constString(fv.fn.Name())
					}
				}
			}
			return e.constString("")
		},
		"verifIteI64": func(e *Exec, a []Value, s *ssa.CallCommon) Value {
			return e.tb.Ite(a[0].(*Term), a[1].(*Term), a[2].(*Term))
		},
		"verifBigHexDigits": func(e *Exec, a []Value, s *ssa.CallCommon) Value {
			b, _ := e.opaque["lastbig"].(*bigSym)
			if b == nil {
				return &SliceV{off: e.c64(0), len: e.c64(0), cap: e.c64(0)}
			}
			arr := e.mkBytes(append([]*Term{}, b.hexDigits...), e.newObj("intrinsic", "bighex"))
			n := e.c64(int64(len(b.hexDigits)))
			return &SliceV{arr: arr, off: e.c64(0), len: n, cap: n}
		},
		// verifDecimalOf(hex, declen): a decimal text of declen digits denoting the number whose
		// hexadecimal digits are hex.  Symbolically the decimal digits are free decimal digits and the
		// math/big contract is told that SetString on this text yields exactly the digits hex (the
		// conversion itself is not modelled); concretely / natively the real conversion.
		"verifDecimalOf": func(e *Exec, a []Value, s *ssa.CallCommon) Value {
			hx := e.sliceBytes(a[0].(*SliceV))
			n := e.concLen(a[1].(*Term), "verifDecimalOf length")
			allConst := true
			for _, t := range hx {
				if !t.IsConst() {
					allConst = false
				}
			}
			if allConst {
				bs := make([]byte, len(hx))
				for i, t := range hx {
					bs[i] = byte(t.val)
				}
				v, ok := new(big.Int).SetString(string(bs), 16)
				if !ok {
					panic(pathAbort{"infeasible", "verifDecimalOf: not a hexadecimal number"})
				}
				d := v.Text(10)
				if len(d) > n {
					panic(pathAbort{"infeasible", "verifDecimalOf: number needs more decimal digits than the case provides"})
				}
				return e.constString(strings.Repeat("0", n-len(d)) + d)
			}
			ts := make([]*Term, n)
			for i := range ts {
				ts[i] = e.freshVar(fmt.Sprintf("dec[%d]", i), 8)
				e.addPCKind(e.tb.And(e.tb.Ule(e.tb.Const(8, '0'), ts[i]), e.tb.Ule(ts[i], e.tb.Const(8, '9'))), 'a')
			}
			str := e.mkString(ts)
			pre, _ := e.opaque["bigpreset"].(map[*Arr][]*Term)
			if pre == nil {
				pre = map[*Arr][]*Term{}
				e.opaque["bigpreset"] = pre
			}
			pre[str.arr] = hx
			return str
		},
		"verifTraceLeaks": hTraceLeaks,
		"verifTraceClass": func(e *Exec, a []Value, s *ssa.CallCommon) Value {
			e.traceClass = e.mustConcreteString(a[0], "trace class")
			return &TupleV{}
		},
		"verifResultOwned": func(e *Exec, a []Value, s *ssa.CallCommon) Value {
			// no object reachable from the value is a pool object, a package-level object or
			// caller-owned (protected) memory
			ok := true
			e.walkObjs(a[0], func(o *Obj) {
				if o == nil || o.kind == "const" {
					return
				}
				if o.pooled || o.kind == "global" || o.prot || o.kind == "pool" {
					ok = false
					e.notes = append(e.notes, fmt.Sprintf("ALIAS: result shares %s object %q", o.kind, o.label))
				}
			}, map[*Cell]bool{})
			return e.tb.Bool(ok)
		},
		"verifByteAt": func(e *Exec, a []Value, s *ssa.CallCommon) Value {
			b := a[0].(*SliceV)
			i := a[1].(*Term)
			if b.arr == nil {
				return e.tb.Const(8, 0)
			}
			off := e.concLen(b.off, "slice offset")
			ts := e.windowBytes(b.arr, off)
			if i.IsConst() {
				if int(i.val) < len(ts) {
					return ts[int(i.val)]
				}
				return e.tb.Const(8, 0)
			}
			return e.selectTree(i, ts)
		},
		"verifBytesSym": hBytesSym,
		"verifDependsOnExact": func(e *Exec, a []Value, s *ssa.CallCommon) Value {
			name := e.mustConcreteString(a[1], "variable name")
			vars := map[string]bool{}
			e.valueVars(a[0], vars, map[interface{}]bool{})
			return e.tb.Bool(vars[name])
		},
		"verifRandStream": func(e *Exec, a []Value, s *ssa.CallCommon) Value {
			i := e.concLen(a[0].(*Term), "rand stream index")
			if i < 0 || i >= len(e.randStreams) {
				panic(pathAbort{"violated", "harness inspects a random read that was not made"})
			}
			ts := append([]*Term{}, e.randStreams[i]...)
			arr := e.mkBytes(ts, e.newObj("intrinsic", "rand-stream"))
			n := e.randLens[i] // bytes actually delivered (symbolic for a direct Reader.Read)
			return &SliceV{arr: arr, off: e.c64(0), len: n, cap: e.c64(int64(len(ts)))}
		},
		"verifSkipCase": func(e *Exec, a []Value, s *ssa.CallCommon) Value {
			panic(pathAbort{"skipped", "case combination not applicable"})
		},
		"verifTime":   hTime,
		"verifTimeIn": hTime,
		"verifTimeAt": hTime,
		"verifPrefer": func(e *Exec, a []Value, s *ssa.CallCommon) Value {
			e.prefers = append(e.prefers, a[0].(*Term))
			return &TupleV{}
		},
		"verifAssertBytesEq": hAssertBytesEq,
		"verifErrInfo":       hErrInfo,
		"verifAliases":       hAliases,
	}
}

func (e *Exec) nondet(nameV Value, w int) Value {
	name := e.mustConcreteString(nameV, "nondet name")
	return e.freshVar(name, w)
}

func (e *Exec) caseVal(name string) int64 {
	v, ok := e.cfg.Cases[name]
	if !ok {
		panic(e.internal("harness asks for undeclared case parameter " + name))
	}
	return v
}

func hCase(e *Exec, a []Value, s *ssa.CallCommon) Value {
	return e.c64(e.caseVal(e.mustConcreteString(a[0], "case name")))
}

func hBytes(e *Exec, a []Value, s *ssa.CallCommon) Value {
	name := e.mustConcreteString(a[0], "nondet name")
	n := e.concLen(a[1].(*Term), "verifBytes length")
	ts := make([]*Term, n)
	for i := range ts {
		ts[i] = e.freshVar(fmt.Sprintf("%s[%d]", name, i), 8)
	}
	arr := e.mkBytes(ts, e.newObj("nondet", name))
	return &SliceV{arr: arr, off: e.c64(0), len: e.c64(int64(n)), cap: e.c64(int64(n))}
}

func hString(e *Exec, a []Value, s *ssa.CallCommon) Value {
	name := e.mustConcreteString(a[0], "nondet name")
	n := e.concLen(a[1].(*Term), "verifString length")
	if n == 0 {
		return e.constString("")
	}
	ts := make([]*Term, n)
	for i := range ts {
		ts[i] = e.freshVar(fmt.Sprintf("%s[%d]", name, i), 8)
	}
	return e.mkString(ts)
}

func hAssume(e *Exec, a []Value, s *ssa.CallCommon) Value {
	c := a[0].(*Term)
	if c.IsTrue() {
		return &TupleV{}
	}
	if c.IsFalse() {
		panic(pathAbort{"infeasible", "assume(false)"})
	}
	if e.cfg.Concrete != nil {
		panic(pathAbort{"concrete-symbolic", "symbolic assumption in concrete mode"})
	}
	// at the exploration frontier make sure the path stays feasible
	if e.decPos >= len(e.decisions) && !e.feasible(c) {
		panic(pathAbort{"infeasible", "assumption unsatisfiable"})
	}
	e.addPCKind(c, 'a')
	return &TupleV{}
}

func (e *Exec) wantTerms() []*Term {
	want := append([]*Term{}, e.nondets...)
	for _, h := range e.hmacCalls {
		want = append(want, h.digest...)
	}
	return want
}

func (e *Exec) digestsFromModel(m map[string]uint64) [][]int {
	var out [][]int
	for _, h := range e.hmacCalls {
		var d []int
		for _, t := range h.digest {
			if t.IsConst() {
				d = append(d, int(t.val))
			} else {
				d = append(d, int(m[t.ref()]))
			}
		}
		out = append(out, d)
	}
	return out
}

func (e *Exec) namedModel(m map[string]uint64) map[string]uint64 {
	out := map[string]uint64{}
	for _, t := range e.nondets {
		if v, ok := m[t.ref()]; ok {
			out[t.name] = v
		}
	}
	return out
}

func (e *Exec) checkObligation(name string, c *Term) {
	ob := &Obligation{Name: name, Path: e.pathNo()}
	e.obligs = append(e.obligs, ob)
	if c.IsTrue() {
		ob.Status = "folded"
		return
	}
	if e.cfg.Concrete != nil {
		if c.IsFalse() {
			ob.Status = "violated"
		} else {
			ob.Status = "unknown"
			ob.Note = "not constant in concrete mode"
		}
		return
	}
	if !deadline.IsZero() && time.Now().After(deadline) {
		ob.Status = "unknown"
		ob.Note = "time budget exhausted before this obligation was sent to a solver"
		e.addPC(c)
		return
	}
	// an indexed assertion (one obligation per byte) that already has several confirmed-to-be-sat
	// instances in this harness instance is not decided again for every further index: the
	// instance is reported as violated either way (never as proved)
	base := name
	if i := strings.IndexByte(name, '['); i > 0 {
		base = name[:i]
	}
	vc, _ := e.opaque["violcount"].(map[string]int)
	if vc == nil {
		vc = map[string]int{}
		e.opaque["violcount"] = vc
	}
	if base != name && vc[base] >= 4 {
		ob.Status = "skipped"
		ob.Note = "further index of an assertion already violated at 4 indices"
		e.addPC(c)
		return
	}
	t0 := time.Now()
	neg := e.tb.Not(c)
	as := append(e.slicePC(neg), neg)
	ob.Size = e.tb.And(as...).Size()
	// stage 0: assumptions only (branch conditions are often irrelevant to arithmetic lemmas but
	// share variables with them); sound because dropping conjuncts only weakens the hypothesis
	var r CheckResult
	as0 := append(e.sliceDirect(neg), neg)
	if len(as0) < len(as) {
		r = e.sol.Prove(e.tb, as0, nil, e.cfg.ProveTimeout/6)
		if r.Status == "unsat" {
			ob.Note = "proved from assumptions alone"
		}
	}
	if r.Status != "unsat" {
		r = e.sol.Prove(e.tb, as, nil, e.cfg.ProveTimeout)
	}
	if r.Status == "sat" {
		// model over the whole path condition (the slice is independent of the rest)
		full := e.sol.Prove(e.tb, e.pcWith(neg), e.wantTerms(), e.cfg.ProveTimeout)
		if full.Status == "sat" && len(e.prefers) > 0 {
			// witness-friendly model: soft constraints stated by the harness (e.g. no collisions of the
			// uninterpreted code function) make the model reproducible with the real functions
			pf := e.sol.Prove(e.tb, append(e.pcWith(neg), e.prefers...), e.wantTerms(), e.cfg.ProveTimeout)
			if pf.Status == "sat" {
				full = pf
			}
		}
		if full.Status == "sat" {
			r = full
		} else {
			r = CheckResult{Status: "unknown", Backend: r.Backend, Note: "slice sat but full path condition " + full.Status + " (" + full.Note + ")"}
		}
	}
	ob.DurS = time.Since(t0).Seconds()
	ob.Backend = r.Backend
	switch r.Status {
	case "unsat":
		ob.Status = "proved"
		if e.opaque["crosscheck"] == true {
			cr := e.sol.CrossCheck(e.tb, as, r.Backend, e.cfg.ProveTimeout)
			ob.Cross = cr.Backend + ":" + cr.Status
			if cr.Status == "sat" {
				ob.Status = "unknown"
				ob.Note = "SOLVER DISAGREEMENT: " + r.Backend + " unsat, " + cr.Backend + " sat"
			}
		}
		e.addPCKind(c, 'p')
	case "sat":
		ob.Status = "violated"
		vc[base]++
		ob.Model = e.namedModel(r.Model)
		ob.Digests = e.digestsFromModel(r.Model)
		// continue under the assumption that the assertion holds, if that is possible
		if e.feasible(c) {
			e.addPC(c)
		} else {
			panic(pathAbort{"violated", "assertion " + name + " fails on the whole path"})
		}
	default:
		ob.Status = "unknown"
		ob.Note = r.Note
		e.addPC(c)
	}
}

func (e *Exec) pathNo() int { return e.opaque["pathno"].(int) }

func hAssert(e *Exec, a []Value, s *ssa.CallCommon) Value {
	name := e.mustConcreteString(a[1], "assert name")
	e.checkObligation(name, a[0].(*Term))
	return &TupleV{}
}

func hFail(e *Exec, a []Value, s *ssa.CallCommon) Value {
	name := e.mustConcreteString(a[0], "fail name")
	e.checkObligation(name, e.tb.False())
	return &TupleV{}
}

func hStrEq(e *Exec, a []Value, s *ssa.CallCommon) Value {
	return e.strEqNoFork(a[0].(*StrV), a[1].(*StrV))
}

// strEqNoFork: string equality as one term, also for symbolic lengths over
// concrete backing arrays (no forking).
func (e *Exec) strEqNoFork(x, y *StrV) *Term {
	tb := e.tb
	if x.len.IsConst() && y.len.IsConst() {
		return e.strEq(x, y, false)
	}
	win := func(s *StrV) []*Term {
		if s.arr == nil {
			return nil
		}
		off := e.concLen(s.off, "string offset")
		return e.windowBytes(s.arr, off)
	}
	xs, ys := win(x), win(y)
	if x.len.IsConst() {
		xs = xs[:int(x.len.val)]
	}
	if y.len.IsConst() {
		ys = ys[:int(y.len.val)]
	}
	n := len(xs)
	if len(ys) < n {
		n = len(ys)
	}
	r := tb.Eq(x.len, y.len)
	for i := 0; i < n; i++ {
		r = tb.And(r, tb.Implies(tb.Ult(e.c64(int64(i)), x.len), tb.Eq(xs[i], ys[i])))
	}
	return r
}

func hBytesEq(e *Exec, a []Value, s *ssa.CallCommon) Value {
	x, y := a[0].(*SliceV), a[1].(*SliceV)
	return e.strEqNoFork(&StrV{arr: x.arr, off: x.off, len: x.len}, &StrV{arr: y.arr, off: y.off, len: y.len})
}

// verifPanics(f) runs f and reports whether it panicked (a fork when both are possible).
func hPanics(e *Exec, a []Value, s *ssa.CallCommon) (ret Value) {
	panicked := false
	func() {
		defer func() {
			if r := recover(); r != nil {
				if gp, ok := r.(*goPanic); ok {
					panicked = true
					e.panicsSeen = append(e.panicsSeen, gp.site+": "+e.panicText(gp.val))
					return
				}
				panic(r)
			}
		}()
		saveF, saveD := e.curFrame, e.depth
		defer func() { e.curFrame, e.depth = saveF, saveD }()
		e.call(a[0], nil, nil)
	}()
	return e.tb.Bool(panicked)
}

func (e *Exec) panicText(v Value) string {
	if iv, ok := v.(*IfaceV); ok {
		if ov, ok := iv.v.(*OpaqueV); ok {
			if s, ok := ov.data.(string); ok {
				return s
			}
			if ov.kind == "fmterror" {
				return "error: " + ov.data.(*fmtRecord).format
			}
		}
		if iv.typ != nil {
			if s, ok := iv.v.(*StrV); ok {
				if cs, ok := e.concreteString(s); ok {
					return cs
				}
			}
			return "panic value of type " + iv.typ.String()
		}
	}
	return "panic"
}

func hBeginOp(e *Exec, a []Value, s *ssa.CallCommon) Value {
	e.epoch++
	e.writes = nil
	return &TupleV{}
}

func hEndOp(e *Exec, a []Value, s *ssa.CallCommon) Value { return &TupleV{} }

// verifProtect marks everything reachable from v as caller-owned.
func hProtect(e *Exec, a []Value, s *ssa.CallCommon) Value {
	e.walkObjs(a[0], func(o *Obj) {
		if o != nil && o.kind != "const" {
			o.prot = true
		}
	}, map[*Cell]bool{})
	return &TupleV{}
}

// verifFrameViolations returns the number of writes to protected objects /
// accesses to pooled objects since verifBeginOp.
func hFrameViolations(e *Exec, a []Value, s *ssa.CallCommon) Value {
	n := 0
	for _, w := range e.writes {
		if e.opaque["ininit"].(int) > 0 {
			continue
		}
		n++
		e.notes = append(e.notes, fmt.Sprintf("FRAME: %s of %s %q in %s", w.what, w.obj.kind, w.obj.label, w.site))
	}
	return e.c64(int64(n))
}

func (e *Exec) hmacAt(a []Value) *hmacObj {
	i := e.concLen(a[0].(*Term), "hmac call index")
	if i < 0 || i >= len(e.hmacCalls) {
		panic(pathAbort{"violated", fmt.Sprintf("harness inspects HMAC call %d but only %d were made", i, len(e.hmacCalls))})
	}
	return e.hmacCalls[i]
}

func hHMACAlg(e *Exec, a []Value, s *ssa.CallCommon) Value {
	h := e.hmacAt(a)
	id := map[string]int64{"sha1": 0, "sha256": 1, "sha512": 2}[h.alg]
	return e.c64(id)
}

func hHMACSums(e *Exec, a []Value, s *ssa.CallCommon) Value {
	return e.c64(int64(e.hmacAt(a).sums))
}

func hHMACPart(e *Exec, a []Value, what string) Value {
	h := e.hmacAt(a)
	var ts []*Term
	switch what {
	case "key":
		ts = h.key
	case "msg":
		e.hmacSettle(h)
		ts = h.msg
	default:
		ts = e.hmacDigest(h)
	}
	arr := e.mkBytes(append([]*Term{}, ts...), e.newObj("intrinsic", "hmac-"+what))
	n := e.c64(int64(len(ts)))
	return &SliceV{arr: arr, off: e.c64(0), len: n, cap: n}
}

// verifMul128Le(a, b, c): a*b <= c computed in 128-bit arithmetic (no wrap).
func hMul128Le(e *Exec, a []Value, s *ssa.CallCommon) Value {
	tb := e.tb
	x := tb.ZExt(a[0].(*Term), 64)
	y := tb.ZExt(a[1].(*Term), 64)
	z := tb.ZExt(a[2].(*Term), 64)
	return tb.Ule(tb.Mul(x, y), z)
}

// verifDependsOn(v, prefix): does any term in value v mention a variable whose
// name starts with prefix?  (syntactic non-interference test)
func hDependsOn(e *Exec, a []Value, s *ssa.CallCommon) Value {
	prefix := e.mustConcreteString(a[1], "variable prefix")
	vars := map[string]bool{}
	e.valueVars(a[0], vars, map[interface{}]bool{})
	var hit []string
	for v := range vars {
		if strings.HasPrefix(v, prefix) {
			hit = append(hit, v)
		}
	}
	sort.Strings(hit)
	if len(hit) == 0 {
		return e.tb.False()
	}
	if e.cfg.Concrete != nil {
		return e.tb.False()
	}
	// the variables occur syntactically: decide semantically (2-safety): two runs that agree on
	// everything but the variables with this prefix must yield the same value
	pred := func(n string) bool { return strings.HasPrefix(n, prefix) }
	var ts []*Term
	e.valueTerms(a[0], &ts, map[interface{}]bool{})
	memo := map[int]*Term{}
	diff := e.tb.False()
	for _, t := range ts {
		diff = e.tb.Or(diff, e.tb.Ne(t, e.tb.Rename(t, pred, "'", memo)))
	}
	if diff.IsFalse() {
		return e.tb.False()
	}
	as := []*Term{diff}
	for _, p := range e.slicePC(diff) {
		as = append(as, p, e.tb.Rename(p, pred, "'", memo))
	}
	r := e.sol.Prove(e.tb, as, nil, e.cfg.ProveTimeout)
	switch r.Status {
	case "unsat":
		return e.tb.False()
	case "sat":
		e.notes = append(e.notes, fmt.Sprintf("DEPENDS: value depends on %v (2-safety query satisfiable)", firstStrs(hit, 5)))
		return e.tb.True()
	}
	e.notes = append(e.notes, fmt.Sprintf("DEPENDS: undecided dependence on %v: %s", firstStrs(hit, 5), r.Note))
	panic(pathAbort{"bound", "dependence query undecided"})
}

// valueTerms collects the scalar terms of a value in a fixed order.
func (e *Exec) valueTerms(v Value, acc *[]*Term, seen map[interface{}]bool) {
	switch x := v.(type) {
	case *Term:
		*acc = append(*acc, x)
	case *StrV:
		*acc = append(*acc, x.len)
		if x.arr != nil && !seen[x.arr] {
			seen[x.arr] = true
			if rec, ok := e.strMeta[x.arr]; ok {
				for _, a := range rec.args {
					e.valueTerms(a, acc, seen)
				}
				return
			}
			for _, c := range x.arr.cells {
				if t, ok := c.v.(*Term); ok {
					*acc = append(*acc, t)
				}
			}
		}
	case *SliceV:
		*acc = append(*acc, x.len)
		if x.arr != nil && !seen[x.arr] {
			seen[x.arr] = true
			for _, c := range x.arr.cells {
				e.valueTerms(e.loadCell(c), acc, seen)
			}
		}
	case *IfaceV:
		if x.v != nil {
			e.valueTerms(x.v, acc, seen)
		}
	case *OpaqueV:
		if rec, ok := x.data.(*fmtRecord); ok && !seen[rec] {
			seen[rec] = true
			for _, a := range rec.args {
				e.valueTerms(a, acc, seen)
			}
		}
	case *StructV:
		for _, f := range x.F {
			e.valueTerms(f, acc, seen)
		}
	case *ArrayV:
		for _, f := range x.E {
			e.valueTerms(f, acc, seen)
		}
	case *TupleV:
		for _, f := range x.E {
			e.valueTerms(f, acc, seen)
		}
	}
}

func firstStrs(s []string, n int) []string {
	if len(s) > n {
		return s[:n]
	}
	return s
}

// valueVars collects the SMT variables occurring anywhere in a value.
func (e *Exec) valueVars(v Value, acc map[string]bool, seen map[interface{}]bool) {
	switch x := v.(type) {
	case *Term:
		for k := range termVars(x) {
			acc[k] = true
		}
	case *StrV:
		e.valueVars(x.len, acc, seen)
		if x.arr != nil && !seen[x.arr] {
			seen[x.arr] = true
			if rec, ok := e.strMeta[x.arr]; ok {
				for _, a := range rec.args {
					e.valueVars(a, acc, seen)
				}
				if ps, ok := e.strPieces[x.arr]; ok {
					for _, p := range ps {
						e.valueVars(p, acc, seen)
					}
				}
				return
			}
			for _, c := range x.arr.cells {
				if t, ok := c.v.(*Term); ok {
					for k := range termVars(t) {
						acc[k] = true
					}
				}
			}
		}
	case *SliceV:
		e.valueVars(x.len, acc, seen)
		if x.arr != nil && !seen[x.arr] {
			seen[x.arr] = true
			for _, c := range x.arr.cells {
				e.valueVars(e.loadCell(c), acc, seen)
			}
		}
	case *IfaceV:
		if x.v != nil {
			e.valueVars(x.v, acc, seen)
		}
	case *OpaqueV:
		if rec, ok := x.data.(*fmtRecord); ok && !seen[rec] {
			seen[rec] = true
			for _, a := range rec.args {
				e.valueVars(a, acc, seen)
			}
			if rec.str != nil {
				e.valueVars(rec.str, acc, seen)
			}
		}
	case *StructV:
		for _, f := range x.F {
			e.valueVars(f, acc, seen)
		}
	case *ArrayV:
		for _, f := range x.E {
			e.valueVars(f, acc, seen)
		}
	case *PtrV:
		if x.c != nil && !seen[x.c] {
			seen[x.c] = true
			e.valueVars(e.loadCell(x.c), acc, seen)
		}
	case *TupleV:
		for _, f := range x.E {
			e.valueVars(f, acc, seen)
		}
	}
}

// verifErrInfo(err) -> 0 nil, 1 sentinel/plain error, 2 formatted error
func hErrInfo(e *Exec, a []Value, s *ssa.CallCommon) Value {
	iv := a[0].(*IfaceV)
	if iv.typ == nil && iv.v == nil {
		return e.c64(0)
	}
	if ov, ok := iv.v.(*OpaqueV); ok && ov.kind == "fmterror" {
		return e.c64(2)
	}
	return e.c64(1)
}

// verifAliases(a, b): do the two values share a backing object?
func hAliases(e *Exec, a []Value, s *ssa.CallCommon) Value {
	objs := map[*Obj]bool{}
	e.walkObjs(a[0], func(o *Obj) {
		if o != nil && o.kind != "const" {
			objs[o] = true
		}
	}, map[*Cell]bool{})
	hit := false
	e.walkObjs(a[1], func(o *Obj) {
		if o != nil && objs[o] {
			hit = true
		}
	}, map[*Cell]bool{})
	return e.tb.Bool(hit)
}

var _ = types.Typ

// verifUF(name, n, key, a, b, c): n bytes of an uninterpreted function of the arguments.
func hUF(e *Exec, a []Value, s *ssa.CallCommon) Value {
	name := e.mustConcreteString(a[0], "UF name")
	n := e.concLen(a[1].(*Term), "UF result length")
	key := e.sliceBytes(a[2].(*SliceV))
	args := append([]*Term{}, key...)
	args = append(args, a[3].(*Term), a[4].(*Term), a[5].(*Term))
	ts := make([]*Term, n)
	for i := range ts {
		ts[i] = e.tb.UF(fmt.Sprintf("%s_k%d_n%d_b%d", name, len(key), n, i), 8, args...)
	}
	arr := e.mkBytes(ts, e.newObj("intrinsic", "uf-"+name))
	ln := e.c64(int64(n))
	return &SliceV{arr: arr, off: e.c64(0), len: ln, cap: ln}
}

// verifAssertBytesEq: one obligation per byte (solvers do not decompose the conjunction themselves).
func hAssertBytesEq(e *Exec, a []Value, s *ssa.CallCommon) Value {
	x, y := a[0].(*SliceV), a[1].(*SliceV)
	name := e.mustConcreteString(a[2], "assert name")
	le := e.tb.Eq(x.len, y.len)
	e.checkObligation(name+"/len", le)
	if !x.len.IsConst() || !y.len.IsConst() || x.len.val != y.len.val {
		if !x.len.IsConst() || !y.len.IsConst() {
			e.checkObligation(name, e.strEqNoFork(&StrV{arr: x.arr, off: x.off, len: x.len}, &StrV{arr: y.arr, off: y.off, len: y.len}))
		}
		return &TupleV{}
	}
	xs, ys := e.sliceBytes(x), e.sliceBytes(y)
	for i := range xs {
		e.checkObligation(fmt.Sprintf("%s[%d]", name, i), e.tb.Eq(xs[i], ys[i]))
	}
	return &TupleV{}
}

// verifTime(name): an arbitrary time.Time satisfying package time's representation invariant.
// Variables: <name>.sec (Unix seconds), .nsec, .mono, .monoread, .loc (0 UTC/nil, 1 Local, 2 other zone).
func hTime(e *Exec, a []Value, s *ssa.CallCommon) Value {
	tb := e.tb
	name := e.mustConcreteString(a[0], "time name")
	sec := e.freshVar(name+".sec", 64)
	if len(a) > 2 {
		// verifTimeAt: the Unix second is given by the caller (the variable is still consumed so
		// that native and symbolic naming stay aligned)
		sec = a[2].(*Term)
	}
	nsec := e.freshVar(name+".nsec", 64)
	mono := e.freshVar(name+".mono", 64)
	monoread := e.freshVar(name+".monoread", 64)
	loc := e.freshVar(name+".loc", 64)
	if e.cfg.Concrete == nil {
		e.addPCKind(tb.Ult(nsec, e.c64(1000000000)), 'a')
		e.addPCKind(tb.Ule(mono, e.c64(1)), 'a')
		e.addPCKind(tb.Ule(loc, e.c64(2)), 'a')
	}
	isMono := tb.Eq(mono, e.c64(1))
	// monotonic form needs the seconds since 1885 to fit 33 bits
	wsec := tb.Add(sec, e.c64(2682288000))
	if e.cfg.Concrete == nil {
		e.addPCKind(tb.Implies(isMono, tb.And(tb.Sle(e.c64(0), wsec), tb.Slt(wsec, e.c64(1<<33)))), 'a')
	}
	wallMono := tb.Concat(tb.Const(1, 1), tb.Concat(tb.Extract(wsec, 32, 0), tb.Extract(nsec, 29, 0)))
	wall := tb.Ite(isMono, wallMono, nsec)
	ext := tb.Ite(isMono, monoread, tb.Add(sec, e.c64(62135596800)))
	// location pointer: concrete per path
	if len(a) > 1 {
		if lc := a[1].(*Term); lc.IsConst() && int64(lc.val) >= 0 && e.cfg.Concrete == nil {
			lv := lc.val
			if lv >= 10 { // 10..12: wall-clock-only representation (no monotonic reading)
				lv -= 10
				e.addPC(tb.Eq(mono, e.c64(0)))
				mono = e.c64(0)
			}
			e.addPC(tb.Eq(loc, e.c64(int64(lv))))
		}
	}
	// the representation is chosen per path (keeps the terms free of if-then-else over bit layouts)
	if e.cfg.Concrete == nil {
		mono = e.c64(int64(e.concretize(mono, 0, 1, "time representation")))
	}
	isMono = tb.Eq(mono, e.c64(1))
	wall = tb.Ite(isMono, wallMono, nsec)
	ext = tb.Ite(isMono, monoread, tb.Add(sec, e.c64(62135596800)))
	k := e.concretize(loc, 0, 2, "time location")
	var lp Value = &PtrV{}
	tp := e.prog.ImportedPackage("time")
	if tp == nil {
		panic(e.unsupported("package time not loaded"))
	}
	switch k {
	case 1:
		lp = &PtrV{c: e.globalCell(tp.Var("localLoc"))}
	case 2:
		lt := tp.Type("Location").Type()
		lp = &PtrV{c: e.newCell(lt, e.newObj("nondet", "time.Location"), nil)}
	}
	return &StructV{F: []Value{wall, ext, lp}}
}

// verifBytesSym(name, max, spare): a byte slice with symbolic length <= max over a
// backing array of max+spare arbitrary bytes; capacity = whole array.
// Variables: <name>.len, <name>[i].
func hBytesSym(e *Exec, a []Value, s *ssa.CallCommon) Value {
	name := e.mustConcreteString(a[0], "nondet name")
	max := e.concLen(a[1].(*Term), "max length")
	spare := e.concLen(a[2].(*Term), "spare capacity")
	ln := e.freshVar(name+".len", 64)
	if e.cfg.Concrete == nil {
		e.addPCKind(e.tb.Ule(ln, e.c64(int64(max))), 'a')
	}
	ts := make([]*Term, max+spare)
	for i := range ts {
		ts[i] = e.freshVar(fmt.Sprintf("%s[%d]", name, i), 8)
	}
	arr := e.mkBytes(ts, e.newObj("nondet", name))
	return &SliceV{arr: arr, off: e.c64(0), len: ln, cap: e.c64(int64(max + spare))}
}

// verifTraceLeaks(prefix): number of variable-time comparison events (string ==, !=, <,
// map lookups keyed by strings, bytes.Equal / strings.* intrinsics) recorded while tracing in
// which one operand depends on variables with the given prefix (attacker data) and the other
// on secret-derived values (HMAC output, the code function, key bytes).
func hTraceLeaks(e *Exec, a []Value, s *ssa.CallCommon) Value {
	prefix := e.mustConcreteString(a[0], "attacker variable prefix")
	n := 0
	for _, ev := range e.varTime {
		xa, xs := e.strDeps(ev.x, prefix)
		ya, ys := e.strDeps(ev.y, prefix)
		if (xa && ys) || (ya && xs) {
			n++
			e.notes = append(e.notes, fmt.Sprintf("LEAK: variable-time %s in %s compares attacker-controlled data with secret-derived data", ev.kind, ev.site))
		}
	}
	return e.c64(int64(n))
}

func (e *Exec) strDeps(s *StrV, prefix string) (attacker, secret bool) {
	if s == nil || s.arr == nil {
		return
	}
	var ts []*Term
	e.valueTerms(s, &ts, map[interface{}]bool{})
	for _, t := range ts {
		for _, sym := range e.symsOf(t) {
			if strings.HasPrefix(sym, prefix) {
				attacker = true
			}
			if strings.HasPrefix(sym, "uf:CODE") || strings.HasPrefix(sym, "uf:HMAC") || strings.HasPrefix(sym, "hmac") || strings.HasPrefix(sym, "key") {
				secret = true
			}
		}
	}
	return
}

// verifJSResult(v any) (kind int, b bool, s string): decodes what a binding returned
// (js.ValueOf(bool) -> kind 2, js.ValueOf(string) -> kind 4, anything else -> its JS type tag).
func hJSResult(e *Exec, a []Value, s *ssa.CallCommon) Value {
	iv := a[0].(*IfaceV)
	jv := e.jsOfOK(iv.v)
	if jv == nil {
		return &TupleV{E: []Value{e.c64(-1), e.tb.False(), e.constString("")}}
	}
	b := e.tb.False()
	str := e.constString("")
	if jv.num != nil && jv.typ.IsConst() && jv.typ.val == 2 {
		b = e.tb.Ne(jv.num, e.c64(0))
	}
	if jv.str != nil {
		str = jv.str
	}
	return &TupleV{E: []Value{jv.typ, b, str}}
}

// verifUFv(name, n, bytes, nums...): n bytes of an uninterpreted function of the arguments.
func hUFv(e *Exec, a []Value, s *ssa.CallCommon) Value {
	name := e.mustConcreteString(a[0], "UF name")
	n := e.concLen(a[1].(*Term), "UF result length")
	key := e.sliceBytes(a[2].(*SliceV))
	args := append([]*Term{}, key...)
	for _, v := range ifaceArgsU64(e, a[3]) {
		args = append(args, v)
	}
	ts := make([]*Term, n)
	for i := range ts {
		ts[i] = e.tb.UF(fmt.Sprintf("%s_k%d_a%d_b%d", name, len(key), len(args)-len(key), i), 8, args...)
	}
	arr := e.mkBytes(ts, e.newObj("intrinsic", "uf-"+name))
	ln := e.c64(int64(n))
	return &SliceV{arr: arr, off: e.c64(0), len: ln, cap: ln}
}

func ifaceArgsU64(e *Exec, v Value) []*Term {
	s := v.(*SliceV)
	n := e.concLen(s.len, "variadic length")
	out := make([]*Term, n)
	for i := 0; i < n; i++ {
		out[i] = e.arrGet(s.arr, e.tb.Add(s.off, e.c64(int64(i)))).(*Term)
	}
	return out
}

// verifHTTP(method, path, queryKey, queryVal string, req any, failDecode bool) *fasthttp.RequestCtx
func hHTTP(e *Exec, a []Value, s *ssa.CallCommon) Value {
	fn := s.StaticCallee()
	pt := fn.Signature.Results().At(0).Type().(*types.Pointer)
	c := e.newCell(pt.Elem(), e.newObj("nondet", "RequestCtx"), nil)
	st := &httpState{method: a[0].(*StrV), path: a[1].(*StrV), query: map[string]*StrV{}, failDecode: a[5].(*Term), status: e.c64(200)}
	if k, ok := e.concreteString(a[2].(*StrV)); ok && k != "" {
		st.query[k] = a[3].(*StrV)
	}
	if iv, ok := a[4].(*IfaceV); ok && iv.typ != nil {
		st.reqValue = iv
	}
	e.httpStates[c] = st
	return &PtrV{c: c}
}

// verifHTTPResp(ctx, out any) bool: copies the marshalled response value into *out when it has that type
func hHTTPResp(e *Exec, a []Value, s *ssa.CallCommon) Value {
	st := e.httpOf(a[0])
	out := a[1].(*IfaceV)
	op, ok := out.v.(*PtrV)
	if !ok || op.c == nil {
		return e.tb.False()
	}
	iv, ok := st.body.(*IfaceV)
	if !ok || iv.typ == nil || !types.Identical(iv.typ, op.c.typ) {
		return e.tb.False()
	}
	e.storeTrail(op.c, iv.v)
	return e.tb.True()
}

// snapshotValue copies the bytes a string / byte slice currently denotes: an observation is the
// value at the time of the call, also when the string aliases memory that is written later
// (strings built with unsafe over pooled buffers).
func (e *Exec) snapshotValue(v Value) Value {
	snap := func(a *Arr) *Arr {
		if a == nil || a.ro {
			return a
		}
		for _, c := range a.cells {
			if _, ok := c.v.(*Term); !ok {
				return a
			}
		}
		return e.newArr(a.elem, len(a.cells), e.newObj("intrinsic", "observation"), func(i int) Value { return a.cells[i].v })
	}
	switch x := v.(type) {
	case *StrV:
		return &StrV{arr: snap(x.arr), off: x.off, len: x.len}
	case *SliceV:
		return &SliceV{arr: snap(x.arr), off: x.off, len: x.len, cap: x.cap}
	}
	return v
}
