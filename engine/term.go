package main

// Hash-consed SMT term DAG with constant folding.  Width 0 = Bool, otherwise
// a bit-vector of that width.  Constants of width <= 64 are folded; wider terms
// (65/128-bit spec arithmetic) are built but only trivially simplified.

import (
	"fmt"
	"sort"
	"strings"
)

type Op uint8

const (
	OpConst Op = iota
	OpVar
	OpNot
	OpAnd
	OpOr
	OpIte
	OpEq
	OpAdd
	OpSub
	OpMul
	OpUDiv
	OpURem
	OpSDiv
	OpSRem
	OpBAnd
	OpBOr
	OpBXor
	OpBNot
	OpNeg
	OpShl
	OpLShr
	OpAShr
	OpUlt
	OpUle
	OpSlt
	OpSle
	OpConcat
	OpExtract
	OpZExt
	OpSExt
	OpUF
)

var opSMT = map[Op]string{
	OpNot: "not", OpAnd: "and", OpOr: "or", OpIte: "ite", OpEq: "=",
	OpAdd: "bvadd", OpSub: "bvsub", OpMul: "bvmul", OpUDiv: "bvudiv", OpURem: "bvurem",
	OpSDiv: "bvsdiv", OpSRem: "bvsrem", OpBAnd: "bvand", OpBOr: "bvor", OpBXor: "bvxor",
	OpBNot: "bvnot", OpNeg: "bvneg", OpShl: "bvshl", OpLShr: "bvlshr", OpAShr: "bvashr",
	OpUlt: "bvult", OpUle: "bvule", OpSlt: "bvslt", OpSle: "bvsle", OpConcat: "concat",
}

type Term struct {
	id   int
	op   Op
	w    int // 0 = Bool
	args []*Term
	val  uint64 // OpConst (w<=64); Bool: 0/1
	name string // OpVar, OpUF
	hi   int    // OpExtract hi; OpZExt/OpSExt: extra bits
	lo   int
}

func (t *Term) IsConst() bool { return t.op == OpConst }
func (t *Term) IsTrue() bool  { return t.op == OpConst && t.w == 0 && t.val == 1 }
func (t *Term) IsFalse() bool { return t.op == OpConst && t.w == 0 && t.val == 0 }

// TB is a term bank (one per engine instance; not shared between goroutines).
type TB struct {
	tab   map[string]*Term
	next  int
	vars  map[string]*Term
	ufs   map[string]*ufDecl
	nodes []*Term
}

type ufDecl struct {
	name string
	argw []int
	w    int
}

func NewTB() *TB {
	return &TB{tab: map[string]*Term{}, vars: map[string]*Term{}, ufs: map[string]*ufDecl{}}
}

func mask(w int) uint64 {
	if w >= 64 {
		return ^uint64(0)
	}
	return (uint64(1) << uint(w)) - 1
}

func (b *TB) mk(t *Term) *Term {
	var sb strings.Builder
	fmt.Fprintf(&sb, "%d:%d:%d:%d:%d:%s", t.op, t.w, t.val, t.hi, t.lo, t.name)
	for _, a := range t.args {
		fmt.Fprintf(&sb, ",%d", a.id)
	}
	k := sb.String()
	if x, ok := b.tab[k]; ok {
		return x
	}
	b.next++
	t.id = b.next
	b.tab[k] = t
	b.nodes = append(b.nodes, t)
	return t
}

func (b *TB) Const(w int, v uint64) *Term {
	if w > 64 {
		// wide constant: build as zext of 64-bit const (only small values needed)
		return b.ZExt(b.Const(64, v), w-64)
	}
	if w == 0 {
		v &= 1
	} else {
		v &= mask(w)
	}
	return b.mk(&Term{op: OpConst, w: w, val: v})
}
func (b *TB) True() *Term  { return b.Const(0, 1) }
func (b *TB) False() *Term { return b.Const(0, 0) }
func (b *TB) Bool(v bool) *Term {
	if v {
		return b.True()
	}
	return b.False()
}

func (b *TB) Var(name string, w int) *Term {
	if t, ok := b.vars[name]; ok {
		if t.w != w {
			panic(fmt.Sprintf("var %s redeclared with width %d (was %d)", name, w, t.w))
		}
		return t
	}
	t := b.mk(&Term{op: OpVar, w: w, name: name})
	b.vars[name] = t
	return t
}

func (b *TB) UF(name string, w int, args ...*Term) *Term {
	d, ok := b.ufs[name]
	if !ok {
		d = &ufDecl{name: name, w: w}
		for _, a := range args {
			d.argw = append(d.argw, a.w)
		}
		b.ufs[name] = d
	} else {
		if d.w != w || len(d.argw) != len(args) {
			panic("UF " + name + " used with inconsistent signature")
		}
		for i, a := range args {
			if d.argw[i] != a.w {
				panic("UF " + name + " used with inconsistent arg width")
			}
		}
	}
	return b.mk(&Term{op: OpUF, w: w, name: name, args: args})
}

func sext64(v uint64, w int) int64 {
	if w >= 64 {
		return int64(v)
	}
	sh := uint(64 - w)
	return int64(v<<sh) >> sh
}

func (b *TB) Not(a *Term) *Term {
	if a.w != 0 {
		panic("Not on non-bool")
	}
	if a.IsConst() {
		return b.Const(0, 1-a.val)
	}
	if a.op == OpNot {
		return a.args[0]
	}
	return b.mk(&Term{op: OpNot, w: 0, args: []*Term{a}})
}

func (b *TB) And(xs ...*Term) *Term {
	var out []*Term
	seen := map[int]bool{}
	for _, x := range xs {
		if x.w != 0 {
			panic("And on non-bool")
		}
		if x.IsFalse() {
			return x
		}
		if x.IsTrue() {
			continue
		}
		if x.op == OpAnd {
			for _, y := range x.args {
				if !seen[y.id] {
					seen[y.id] = true
					out = append(out, y)
				}
			}
			continue
		}
		if !seen[x.id] {
			seen[x.id] = true
			out = append(out, x)
		}
	}
	for _, x := range out {
		if x.op == OpNot && seen[x.args[0].id] {
			return b.False()
		}
	}
	if len(out) == 0 {
		return b.True()
	}
	if len(out) == 1 {
		return out[0]
	}
	sort.Slice(out, func(i, j int) bool { return out[i].id < out[j].id })
	return b.mk(&Term{op: OpAnd, w: 0, args: out})
}

func (b *TB) Or(xs ...*Term) *Term {
	var out []*Term
	seen := map[int]bool{}
	for _, x := range xs {
		if x.w != 0 {
			panic("Or on non-bool")
		}
		if x.IsTrue() {
			return x
		}
		if x.IsFalse() {
			continue
		}
		if x.op == OpOr {
			for _, y := range x.args {
				if !seen[y.id] {
					seen[y.id] = true
					out = append(out, y)
				}
			}
			continue
		}
		if !seen[x.id] {
			seen[x.id] = true
			out = append(out, x)
		}
	}
	for _, x := range out {
		if x.op == OpNot && seen[x.args[0].id] {
			return b.True()
		}
	}
	if len(out) == 0 {
		return b.False()
	}
	if len(out) == 1 {
		return out[0]
	}
	sort.Slice(out, func(i, j int) bool { return out[i].id < out[j].id })
	return b.mk(&Term{op: OpOr, w: 0, args: out})
}

func (b *TB) Implies(a, c *Term) *Term { return b.Or(b.Not(a), c) }

func (b *TB) Ite(c, x, y *Term) *Term {
	if c.w != 0 || x.w != y.w {
		panic(fmt.Sprintf("Ite sort mismatch c.w=%d x.w=%d y.w=%d", c.w, x.w, y.w))
	}
	if c.IsTrue() {
		return x
	}
	if c.IsFalse() {
		return y
	}
	if x == y {
		return x
	}
	if x.w == 0 {
		if x.IsTrue() && y.IsFalse() {
			return c
		}
		if x.IsFalse() && y.IsTrue() {
			return b.Not(c)
		}
		if x.IsTrue() {
			return b.Or(c, y)
		}
		if x.IsFalse() {
			return b.And(b.Not(c), y)
		}
		if y.IsTrue() {
			return b.Or(b.Not(c), x)
		}
		if y.IsFalse() {
			return b.And(c, x)
		}
	}
	if c.op == OpNot {
		return b.Ite(c.args[0], y, x)
	}
	// ite(c, a, ite(c, _, d)) = ite(c, a, d)
	if y.op == OpIte && y.args[0] == c {
		return b.Ite(c, x, y.args[2])
	}
	if x.op == OpIte && x.args[0] == c {
		return b.Ite(c, x.args[1], y)
	}
	return b.mk(&Term{op: OpIte, w: x.w, args: []*Term{c, x, y}})
}

func (b *TB) Eq(x, y *Term) *Term {
	if x.w != y.w {
		panic(fmt.Sprintf("Eq width mismatch %d vs %d", x.w, y.w))
	}
	if x == y {
		return b.True()
	}
	if x.IsConst() && y.IsConst() {
		return b.Bool(x.val == y.val)
	}
	if x.w == 0 {
		if x.IsTrue() {
			return y
		}
		if y.IsTrue() {
			return x
		}
		if x.IsFalse() {
			return b.Not(y)
		}
		if y.IsFalse() {
			return b.Not(x)
		}
	}
	if y.IsConst() {
		x, y = y, x
	}
	// x const: push into ite chains with constant leaves (table lookups)
	if x.IsConst() && y.op == OpIte {
		if y.args[1].IsConst() || y.args[2].IsConst() || y.args[1].op == OpIte || y.args[2].op == OpIte {
			if iteLeafBudget(y, 600) {
				return b.eqIte(x, y, map[int]*Term{})
			}
		}
	}
	if x.IsConst() && y.op == OpZExt {
		in := y.args[0]
		if x.val>>uint(in.w) != 0 && in.w < 64 {
			return b.False()
		}
		return b.Eq(b.Const(in.w, x.val), in)
	}
	if x.IsConst() && y.op == OpConcat && x.w <= 64 {
		hi, lo := y.args[0], y.args[1]
		return b.And(b.Eq(b.Const(hi.w, x.val>>uint(lo.w)), hi), b.Eq(b.Const(lo.w, x.val), lo))
	}
	if x.id > y.id && !x.IsConst() {
		x, y = y, x
	}
	return b.mk(&Term{op: OpEq, w: 0, args: []*Term{x, y}})
}

func iteLeafBudget(t *Term, n int) bool {
	cnt := 0
	seen := map[int]bool{}
	var rec func(t *Term) bool
	rec = func(t *Term) bool {
		if seen[t.id] {
			return true
		}
		seen[t.id] = true
		cnt++
		if cnt > n {
			return false
		}
		if t.op == OpIte {
			return rec(t.args[1]) && rec(t.args[2])
		}
		return true
	}
	return rec(t)
}

func (b *TB) eqIte(k, t *Term, memo map[int]*Term) *Term {
	if r, ok := memo[t.id]; ok {
		return r
	}
	var r *Term
	if t.op == OpIte {
		r = b.Ite(t.args[0], b.eqIte(k, t.args[1], memo), b.eqIte(k, t.args[2], memo))
	} else if t.IsConst() {
		r = b.Bool(t.val == k.val)
	} else {
		r = b.mk(&Term{op: OpEq, w: 0, args: []*Term{k, t}})
	}
	memo[t.id] = r
	return r
}

func (b *TB) Ne(x, y *Term) *Term { return b.Not(b.Eq(x, y)) }

func (b *TB) bin(op Op, x, y *Term) *Term {
	if x.w != y.w || x.w == 0 {
		panic(fmt.Sprintf("binop %s width mismatch %d vs %d", opSMT[op], x.w, y.w))
	}
	w := x.w
	if x.IsConst() && y.IsConst() && w <= 64 {
		a, c := x.val, y.val
		var r uint64
		switch op {
		case OpAdd:
			r = a + c
		case OpSub:
			r = a - c
		case OpMul:
			r = a * c
		case OpUDiv:
			if c == 0 {
				r = mask(w)
			} else {
				r = a / c
			}
		case OpURem:
			if c == 0 {
				r = a
			} else {
				r = a % c
			}
		case OpSDiv:
			sa, sc := sext64(a, w), sext64(c, w)
			if sc == 0 {
				if sa >= 0 {
					r = mask(w)
				} else {
					r = 1
				}
			} else if sc == -1 {
				r = uint64(-sa)
			} else {
				r = uint64(sa / sc)
			}
		case OpSRem:
			sa, sc := sext64(a, w), sext64(c, w)
			if sc == 0 {
				r = a
			} else if sc == -1 {
				r = 0
			} else {
				r = uint64(sa % sc)
			}
		case OpBAnd:
			r = a & c
		case OpBOr:
			r = a | c
		case OpBXor:
			r = a ^ c
		case OpShl:
			if c >= uint64(w) {
				r = 0
			} else {
				r = a << c
			}
		case OpLShr:
			if c >= uint64(w) {
				r = 0
			} else {
				r = a >> c
			}
		case OpAShr:
			sa := sext64(a, w)
			if c >= uint64(w) {
				c = uint64(w - 1)
			}
			r = uint64(sa >> c)
		}
		return b.Const(w, r)
	}
	isZero := func(t *Term) bool { return t.IsConst() && t.val == 0 }
	isOnes := func(t *Term) bool { return t.IsConst() && w <= 64 && t.val == mask(w) }
	switch op {
	case OpAdd:
		if isZero(x) {
			return y
		}
		if isZero(y) {
			return x
		}
		if x.IsConst() {
			x, y = y, x
		}
		// (a + k1) + k2
		if y.IsConst() && x.op == OpAdd && x.args[1].IsConst() && w <= 64 {
			return b.bin(OpAdd, x.args[0], b.Const(w, x.args[1].val+y.val))
		}
	case OpSub:
		if isZero(y) {
			return x
		}
		if x == y {
			return b.Const(w, 0)
		}
		if y.IsConst() && w <= 64 {
			return b.bin(OpAdd, x, b.Const(w, -y.val))
		}
	case OpMul:
		if isZero(x) || isZero(y) {
			return b.Const(w, 0)
		}
		if x.IsConst() && x.val == 1 {
			return y
		}
		if y.IsConst() && y.val == 1 {
			return x
		}
		if x.IsConst() {
			x, y = y, x
		}
	case OpUDiv:
		if y.IsConst() && y.val == 1 {
			return x
		}
	case OpBAnd:
		if isZero(x) || isZero(y) {
			return b.Const(w, 0)
		}
		if isOnes(x) {
			return y
		}
		if isOnes(y) {
			return x
		}
		if x == y {
			return x
		}
		if x.IsConst() {
			x, y = y, x
		}
		// and(zext(a), k) where k fits in a's width and is all ones there
		if y.IsConst() && x.op == OpZExt && x.args[0].w < 64 && y.val == mask(x.args[0].w) {
			return x
		}
	case OpBOr:
		if isZero(x) {
			return y
		}
		if isZero(y) {
			return x
		}
		if x == y {
			return x
		}
		if x.IsConst() {
			x, y = y, x
		}
	case OpBXor:
		if isZero(x) {
			return y
		}
		if isZero(y) {
			return x
		}
		if x == y {
			return b.Const(w, 0)
		}
		if x.IsConst() {
			x, y = y, x
		}
	case OpShl, OpLShr, OpAShr:
		if isZero(y) {
			return x
		}
		if isZero(x) {
			return x
		}
		if y.IsConst() && y.val >= uint64(w) && op != OpAShr {
			return b.Const(w, 0)
		}
		// constant shifts are normalised to extract/concat (simplifies against concat/zext)
		if y.IsConst() && y.val > 0 && y.val < uint64(w) && w <= 64 {
			c := int(y.val)
			switch op {
			case OpShl:
				return b.Concat(b.Extract(x, w-1-c, 0), b.Const(c, 0))
			case OpLShr:
				return b.ZExt(b.Extract(x, w-1, c), c)
			}
		}
	}
	return b.mk(&Term{op: op, w: w, args: []*Term{x, y}})
}

func (b *TB) Add(x, y *Term) *Term  { return b.bin(OpAdd, x, y) }
func (b *TB) Sub(x, y *Term) *Term  { return b.bin(OpSub, x, y) }
func (b *TB) Mul(x, y *Term) *Term  { return b.bin(OpMul, x, y) }
func (b *TB) UDiv(x, y *Term) *Term { return b.bin(OpUDiv, x, y) }
func (b *TB) URem(x, y *Term) *Term { return b.bin(OpURem, x, y) }
func (b *TB) SDiv(x, y *Term) *Term { return b.bin(OpSDiv, x, y) }
func (b *TB) SRem(x, y *Term) *Term { return b.bin(OpSRem, x, y) }
func (b *TB) BAnd(x, y *Term) *Term { return b.bin(OpBAnd, x, y) }
func (b *TB) BOr(x, y *Term) *Term  { return b.bin(OpBOr, x, y) }
func (b *TB) BXor(x, y *Term) *Term { return b.bin(OpBXor, x, y) }
func (b *TB) Shl(x, y *Term) *Term  { return b.bin(OpShl, x, y) }
func (b *TB) LShr(x, y *Term) *Term { return b.bin(OpLShr, x, y) }
func (b *TB) AShr(x, y *Term) *Term { return b.bin(OpAShr, x, y) }

func (b *TB) BNot(x *Term) *Term {
	if x.IsConst() && x.w <= 64 {
		return b.Const(x.w, ^x.val)
	}
	return b.mk(&Term{op: OpBNot, w: x.w, args: []*Term{x}})
}
func (b *TB) Neg(x *Term) *Term {
	if x.IsConst() && x.w <= 64 {
		return b.Const(x.w, -x.val)
	}
	return b.mk(&Term{op: OpNeg, w: x.w, args: []*Term{x}})
}

func (b *TB) cmp(op Op, x, y *Term) *Term {
	if x.w != y.w || x.w == 0 {
		panic(fmt.Sprintf("cmp width mismatch %d vs %d", x.w, y.w))
	}
	w := x.w
	if x.IsConst() && y.IsConst() && w <= 64 {
		switch op {
		case OpUlt:
			return b.Bool(x.val < y.val)
		case OpUle:
			return b.Bool(x.val <= y.val)
		case OpSlt:
			return b.Bool(sext64(x.val, w) < sext64(y.val, w))
		case OpSle:
			return b.Bool(sext64(x.val, w) <= sext64(y.val, w))
		}
	}
	if x == y {
		return b.Bool(op == OpUle || op == OpSle)
	}
	if w <= 64 {
		switch op {
		case OpUlt:
			if y.IsConst() && y.val == 0 {
				return b.False()
			}
			if x.IsConst() && x.val == mask(w) {
				return b.False()
			}
			// zext(a) < k with k > max(a)
			if y.IsConst() && x.op == OpZExt && x.args[0].w < 64 && y.val > mask(x.args[0].w) {
				return b.True()
			}
		case OpUle:
			if x.IsConst() && x.val == 0 {
				return b.True()
			}
			if y.IsConst() && y.val == mask(w) {
				return b.True()
			}
			if y.IsConst() && x.op == OpZExt && x.args[0].w < 64 && y.val >= mask(x.args[0].w) {
				return b.True()
			}
		case OpSlt:
			// zext(a) <s k, k non-negative and larger than max(a); zext(a) <s 0 false
			if x.op == OpZExt && y.IsConst() && sext64(y.val, w) >= 0 && x.args[0].w < 63 {
				if y.val > mask(x.args[0].w) {
					return b.True()
				}
				if y.val == 0 {
					return b.False()
				}
			}
		case OpSle:
			if x.op == OpZExt && y.IsConst() && sext64(y.val, w) >= 0 && x.args[0].w < 63 && y.val >= mask(x.args[0].w) {
				return b.True()
			}
			if y.op == OpZExt && x.IsConst() && sext64(x.val, w) <= 0 {
				return b.True()
			}
		}
	}
	return b.mk(&Term{op: op, w: 0, args: []*Term{x, y}})
}
func (b *TB) Ult(x, y *Term) *Term { return b.cmp(OpUlt, x, y) }
func (b *TB) Ule(x, y *Term) *Term { return b.cmp(OpUle, x, y) }
func (b *TB) Slt(x, y *Term) *Term { return b.cmp(OpSlt, x, y) }
func (b *TB) Sle(x, y *Term) *Term { return b.cmp(OpSle, x, y) }

func (b *TB) Concat(hi, lo *Term) *Term {
	w := hi.w + lo.w
	if hi.IsConst() && hi.val == 0 {
		return b.ZExt(lo, hi.w)
	}
	if hi.IsConst() && lo.IsConst() && w <= 64 {
		return b.Const(w, hi.val<<uint(lo.w)|lo.val)
	}
	return b.mk(&Term{op: OpConcat, w: w, args: []*Term{hi, lo}})
}

func (b *TB) Extract(x *Term, hi, lo int) *Term {
	if hi < lo || hi >= x.w {
		panic(fmt.Sprintf("bad extract [%d:%d] of width %d", hi, lo, x.w))
	}
	w := hi - lo + 1
	if w == x.w {
		return x
	}
	if x.IsConst() {
		return b.Const(w, x.val>>uint(lo))
	}
	switch x.op {
	case OpZExt:
		in := x.args[0]
		if hi < in.w {
			return b.Extract(in, hi, lo)
		}
		if lo >= in.w {
			return b.Const(w, 0)
		}
		if lo == 0 {
			return b.ZExt(in, w-in.w)
		}
	case OpSExt:
		in := x.args[0]
		if hi < in.w {
			return b.Extract(in, hi, lo)
		}
	case OpConcat:
		h, l := x.args[0], x.args[1]
		if hi < l.w {
			return b.Extract(l, hi, lo)
		}
		if lo >= l.w {
			return b.Extract(h, hi-l.w, lo-l.w)
		}
	case OpExtract:
		return b.Extract(x.args[0], hi+x.lo, lo+x.lo)
	case OpIte:
		if x.args[1].IsConst() && x.args[2].IsConst() {
			return b.Ite(x.args[0], b.Extract(x.args[1], hi, lo), b.Extract(x.args[2], hi, lo))
		}
	case OpBAnd, OpBOr, OpBXor:
		if lo == 0 || x.args[1].IsConst() {
			return b.bin(x.op, b.Extract(x.args[0], hi, lo), b.Extract(x.args[1], hi, lo))
		}
	case OpAdd, OpSub, OpMul:
		if lo == 0 && (x.args[0].op == OpZExt || x.args[0].op == OpSExt || x.args[1].IsConst()) && w >= 8 {
			// low bits of modular arithmetic only depend on low bits of operands
			a0, a1 := b.Extract(x.args[0], hi, 0), b.Extract(x.args[1], hi, 0)
			return b.bin(x.op, a0, a1)
		}
	}
	return b.mk(&Term{op: OpExtract, w: w, args: []*Term{x}, hi: hi, lo: lo})
}

func (b *TB) ZExt(x *Term, extra int) *Term {
	if extra == 0 {
		return x
	}
	if extra < 0 {
		panic("negative zext")
	}
	if x.IsConst() && x.w+extra <= 64 {
		return b.Const(x.w+extra, x.val)
	}
	if x.op == OpZExt {
		return b.ZExt(x.args[0], x.hi+extra)
	}
	return b.mk(&Term{op: OpZExt, w: x.w + extra, args: []*Term{x}, hi: extra})
}

func (b *TB) SExt(x *Term, extra int) *Term {
	if extra == 0 {
		return x
	}
	if x.IsConst() && x.w+extra <= 64 {
		return b.Const(x.w+extra, uint64(sext64(x.val, x.w)))
	}
	if x.op == OpZExt {
		// sign bit of a zero-extended value is 0
		return b.ZExt(x.args[0], x.hi+extra)
	}
	return b.mk(&Term{op: OpSExt, w: x.w + extra, args: []*Term{x}, hi: extra})
}

// Resize converts x to width w, sign- or zero-extending according to signed.
func (b *TB) Resize(x *Term, w int, signed bool) *Term {
	if x.w == w {
		return x
	}
	if x.w > w {
		return b.Extract(x, w-1, 0)
	}
	if signed {
		return b.SExt(x, w-x.w)
	}
	return b.ZExt(x, w-x.w)
}

func (b *TB) B2BV(c *Term, w int) *Term { return b.Ite(c, b.Const(w, 1), b.Const(w, 0)) }

// ---------- printing ----------

func sortSMT(w int) string {
	if w == 0 {
		return "Bool"
	}
	return fmt.Sprintf("(_ BitVec %d)", w)
}

func smtName(s string) string {
	var sb strings.Builder
	// prefixed so that no name can collide with a theory symbol (cvc5 rejects e.g. |sec|)
	sb.WriteString("|v.")
	for _, c := range s {
		if c == '|' || c == '\\' {
			sb.WriteRune('_')
		} else {
			sb.WriteRune(c)
		}
	}
	sb.WriteString("|")
	return sb.String()
}

func (t *Term) ref() string {
	switch t.op {
	case OpConst:
		if t.w == 0 {
			if t.val == 1 {
				return "true"
			}
			return "false"
		}
		if t.w%4 == 0 {
			return fmt.Sprintf("#x%0*x", t.w/4, t.val)
		}
		return fmt.Sprintf("#b%0*b", t.w, t.val)
	case OpVar:
		return smtName(t.name)
	}
	return fmt.Sprintf("t%d", t.id)
}

func (t *Term) def() string {
	var sb strings.Builder
	switch t.op {
	case OpExtract:
		fmt.Fprintf(&sb, "((_ extract %d %d) %s)", t.hi, t.lo, t.args[0].ref())
	case OpZExt:
		fmt.Fprintf(&sb, "((_ zero_extend %d) %s)", t.hi, t.args[0].ref())
	case OpSExt:
		fmt.Fprintf(&sb, "((_ sign_extend %d) %s)", t.hi, t.args[0].ref())
	case OpUF:
		if len(t.args) == 0 {
			sb.WriteString(smtName(t.name))
		} else {
			sb.WriteString("(" + smtName(t.name))
			for _, a := range t.args {
				sb.WriteString(" " + a.ref())
			}
			sb.WriteString(")")
		}
	default:
		sb.WriteString("(" + opSMT[t.op])
		for _, a := range t.args {
			sb.WriteString(" " + a.ref())
		}
		sb.WriteString(")")
	}
	return sb.String()
}

// Vars returns the set of variable names occurring in t.
func (t *Term) Vars(acc map[string]bool, seen map[int]bool) {
	if seen[t.id] {
		return
	}
	seen[t.id] = true
	if t.op == OpVar {
		acc[t.name] = true
	}
	for _, a := range t.args {
		a.Vars(acc, seen)
	}
}

func termVars(ts ...*Term) map[string]bool {
	acc := map[string]bool{}
	seen := map[int]bool{}
	for _, t := range ts {
		if t != nil {
			t.Vars(acc, seen)
		}
	}
	return acc
}

func (t *Term) Size() int {
	seen := map[int]bool{}
	var rec func(t *Term)
	rec = func(t *Term) {
		if seen[t.id] {
			return
		}
		seen[t.id] = true
		for _, a := range t.args {
			rec(a)
		}
	}
	rec(t)
	return len(seen)
}

func (t *Term) String() string {
	if t.op == OpConst || t.op == OpVar {
		return t.ref()
	}
	if t.Size() > 40 {
		return fmt.Sprintf("<term t%d w=%d size=%d>", t.id, t.w, t.Size())
	}
	var rec func(t *Term) string
	rec = func(t *Term) string {
		if t.op == OpConst || t.op == OpVar {
			return t.ref()
		}
		s := t.def()
		// expand refs textually (small terms only)
		for _, a := range t.args {
			if a.op != OpConst && a.op != OpVar {
				s = strings.Replace(s, a.ref(), rec(a), 1)
			}
		}
		return s
	}
	return rec(t)
}

// Subst evaluates t under an assignment of variables (and UF applications by id)
// to constants; unassigned variables stay symbolic.
func (b *TB) Subst(t *Term, env map[string]uint64, memo map[int]*Term) *Term {
	if r, ok := memo[t.id]; ok {
		return r
	}
	var r *Term
	switch t.op {
	case OpConst:
		r = t
	case OpVar:
		if v, ok := env[t.name]; ok {
			r = b.Const(t.w, v)
		} else {
			r = t
		}
	default:
		args := make([]*Term, len(t.args))
		for i, a := range t.args {
			args[i] = b.Subst(a, env, memo)
		}
		r = b.rebuild(t, args)
	}
	memo[t.id] = r
	return r
}

func (b *TB) rebuild(t *Term, a []*Term) *Term {
	switch t.op {
	case OpNot:
		return b.Not(a[0])
	case OpAnd:
		return b.And(a...)
	case OpOr:
		return b.Or(a...)
	case OpIte:
		return b.Ite(a[0], a[1], a[2])
	case OpEq:
		return b.Eq(a[0], a[1])
	case OpAdd, OpSub, OpMul, OpUDiv, OpURem, OpSDiv, OpSRem, OpBAnd, OpBOr, OpBXor, OpShl, OpLShr, OpAShr:
		return b.bin(t.op, a[0], a[1])
	case OpBNot:
		return b.BNot(a[0])
	case OpNeg:
		return b.Neg(a[0])
	case OpUlt, OpUle, OpSlt, OpSle:
		return b.cmp(t.op, a[0], a[1])
	case OpConcat:
		return b.Concat(a[0], a[1])
	case OpExtract:
		return b.Extract(a[0], t.hi, t.lo)
	case OpZExt:
		return b.ZExt(a[0], t.hi)
	case OpSExt:
		return b.SExt(a[0], t.hi)
	case OpUF:
		return b.UF(t.name, t.w, a...)
	}
	panic("rebuild: unknown op")
}

// Rename returns t with every variable whose name satisfies pred replaced by a
// primed copy (name + suffix).
func (b *TB) Rename(t *Term, pred func(string) bool, suffix string, memo map[int]*Term) *Term {
	if r, ok := memo[t.id]; ok {
		return r
	}
	var r *Term
	switch t.op {
	case OpConst:
		r = t
	case OpVar:
		if pred(t.name) {
			r = b.Var(t.name+suffix, t.w)
		} else {
			r = t
		}
	default:
		args := make([]*Term, len(t.args))
		changed := false
		for i, a := range t.args {
			args[i] = b.Rename(a, pred, suffix, memo)
			if args[i] != a {
				changed = true
			}
		}
		if changed {
			r = b.rebuild(t, args)
		} else {
			r = t
		}
	}
	memo[t.id] = r
	return r
}

// Abstract replaces expensive arithmetic (division, remainder and multiplication with two
// non-constant operands, width >= 32) by uninterpreted functions.  The result
// over-approximates satisfiability: unsat of the abstraction implies unsat of the original.
func (b *TB) Abstract(t *Term, memo map[int]*Term) *Term {
	if r, ok := memo[t.id]; ok {
		return r
	}
	var r *Term
	switch t.op {
	case OpConst, OpVar:
		r = t
	default:
		args := make([]*Term, len(t.args))
		changed := false
		for i, a := range t.args {
			args[i] = b.Abstract(a, memo)
			if args[i] != a {
				changed = true
			}
		}
		heavy := false
		switch t.op {
		case OpUDiv, OpURem, OpSDiv, OpSRem, OpMul:
			heavy = t.w >= 32 && !args[0].IsConst() && !args[1].IsConst()
		}
		if heavy {
			r = b.UF(fmt.Sprintf("abs_%s_%d", opSMT[t.op], t.w), t.w, args...)
		} else if changed {
			r = b.rebuild(t, args)
		} else {
			r = t
		}
	}
	memo[t.id] = r
	return r
}
