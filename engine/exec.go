package main

// Symbolic executor over go/ssa.  One path per run; alternatives are explored by
// re-execution with a decision prefix (see explore.go).

import (
	"fmt"
	"go/constant"
	"go/token"
	"go/types"
	"os"
	"sort"
	"strings"
	"time"

	"golang.org/x/tools/go/ssa"
)

type Config struct {
	Unwind        int           // max executions of one loop back-edge per frame
	MaxSteps      int           // instruction budget per path
	MaxConcretize int           // max value when a length must be made concrete
	FeasTimeout   time.Duration // per feasibility query
	ProveTimeout  time.Duration // per obligation
	Cases         map[string]int64
	Replace       map[string]string // function full name -> harness stub name
	Concrete      map[string]uint64 // concrete mode: values for nondet variables
	ConcDigests   [][]int           // concrete mode: digests per HMAC call (when the harness uses model digests)
	RealHMAC      bool              // concrete mode: compute real HMAC when key+message are concrete
	Trace         bool
	HMACFresh     bool // digest bytes are fresh variables instead of an uninterpreted function of (key,msg)
}

type pathAbort struct {
	kind string // infeasible | unwind | unsupported | internal | bound | steps
	msg  string
}

type goPanic struct {
	val  Value
	site string
}

type deferred struct {
	fn   Value
	args []Value
	call *ssa.CallCommon
}

type Frame struct {
	fn       *ssa.Function
	locals   map[ssa.Value]Value
	defers   []deferred
	panic    *goPanic // set while running defers because of a panic
	results  Value
	backEdge map[[2]int]int
	caller   *Frame
	deferOf  *Frame // frame whose deferred call this frame is
}

type trailEnt struct {
	c   *Cell
	old Value
	m   *MapObj
	mk  []Value
	mv  []*Cell
}

type Exec struct {
	prog *ssa.Program
	tb   *TB
	sol  *Portfolio
	cfg  Config

	// memory
	globals   map[*ssa.Global]*Cell
	initDone  map[*ssa.Package]bool
	strConsts map[string]*StrV
	nextObj   int
	nextArr   int
	epoch     int
	trail     []trailEnt
	trailOn   bool

	// path state
	pc        []*Term
	decisions []int64
	decPos    int
	alts      [][]int64
	steps     int
	nondetSeq map[string]int
	nondets   []*Term
	depth     int

	// observation / bookkeeping for properties
	hmacCalls   []*hmacObj
	obligs      []*Obligation
	observes    []Observation
	writes      []writeEvent
	traceEv     []string // observation trace for constant-time analysis
	poolState   map[*Cell][]Value
	notes       []string
	funcsSeen   map[*ssa.Function]bool
	intrinUsed  map[string]bool
	curFrame    *Frame
	pathLabel   []string
	opaque      map[string]interface{}
	replaceFn   map[string]*ssa.Function
	harnessPkg  *ssa.Package
	panicsSeen  []string
	varTime     []varTimeEv
	decStr      map[*Arr]decInfo
	strMeta     map[*Arr]*fmtRecord
	strPieces   map[*Arr][]*StrV
	symCache    map[int][]string
	bigInts     map[*Cell]*bigVal
	prefers     []*Term
	pcKind      []byte
	randStreams [][]*Term
	randLens    []*Term
	absMemo     map[int]*Term
	traceClass  string
	valuesMeta  map[*Arr]*valuesSnap
	urlMeta     map[*Arr][]*StrV
	jsVals      []*jsVal
	jsGlobals   []jsReg
	httpStates  map[*Cell]*httpState
	bodyOwner   map[*Arr]*httpState
	jsonVals    map[*Arr]*IfaceV
}

type Observation struct {
	Name string
	Val  Value
}

type writeEvent struct {
	obj  *Obj
	what string
	site string
}

func (e *Exec) unsupported(msg string) pathAbort { return pathAbort{"unsupported", msg} }
func (e *Exec) internal(msg string) pathAbort    { return pathAbort{"internal", msg} }

// ---------- path control ----------

func (e *Exec) pcWith(extra ...*Term) []*Term {
	out := make([]*Term, 0, len(e.pc)+len(extra))
	out = append(out, e.pc...)
	out = append(out, extra...)
	return out
}

func (e *Exec) addPC(t *Term) { e.addPCKind(t, 'b') }

// addPCKind: kind 'a' = assumption of the harness / contract of a nondet value,
// 'b' = branch decision, 'p' = proved assertion.
func (e *Exec) addPCKind(t *Term, kind byte) {
	if t.IsTrue() {
		return
	}
	// keep conjuncts small so that independence slicing works
	if t.op == OpAnd {
		for _, a := range t.args {
			e.addPCKind(a, kind)
		}
		return
	}
	if t.op == OpNot && t.args[0].op == OpOr {
		for _, a := range t.args[0].args {
			e.addPCKind(e.tb.Not(a), kind)
		}
		return
	}
	for _, p := range e.pc {
		if p == t {
			return
		}
	}
	e.pc = append(e.pc, t)
	e.pcKind = append(e.pcKind, kind)
}

func (e *Exec) feasible(c *Term) bool {
	if c.IsTrue() {
		return true
	}
	if c.IsFalse() {
		return false
	}
	if !deadline.IsZero() && e.cfg.Concrete == nil && time.Now().After(deadline) {
		// the run's time budget also ends a path that is still being executed
		panic(pathAbort{"bound", "time budget exhausted inside a path"})
	}
	for _, p := range e.pc {
		if p == c {
			return true
		}
		if p.op == OpNot && p.args[0] == c {
			return false
		}
		if c.op == OpNot && c.args[0] == p {
			return false
		}
	}
	as := append(e.slicePC(c), c)
	// feasibility is decided on an abstraction in which symbolic-by-symbolic division /
	// multiplication are uninterpreted: unsat is exact, sat may keep an infeasible path, on which
	// every assertion is still checked with the exact terms (so it can only cost time)
	for i, a := range as {
		as[i] = e.tb.Abstract(a, e.absMemo)
	}
	r := e.sol.Feasible(e.tb, as, e.cfg.FeasTimeout)
	if r.Status == "unknown" {
		e.notes = append(e.notes, "feasibility unknown (kept): "+firstN(r.Note, 80))
	}
	return r.Status != "unsat"
}

// branch decides a two-way branch on c for this path and schedules the other side.
func (e *Exec) branch(c *Term, label string) bool {
	if c.IsTrue() {
		return true
	}
	if c.IsFalse() {
		return false
	}
	if e.cfg.Concrete != nil {
		panic(pathAbort{"concrete-symbolic", "symbolic branch in concrete mode at " + label + ": " + c.String()})
	}
	if e.decPos < len(e.decisions) {
		d := e.decisions[e.decPos]
		e.decPos++
		if d == 1 {
			e.addPC(c)
			return true
		}
		e.addPC(e.tb.Not(c))
		return false
	}
	ft := e.feasible(c)
	ff := true
	if ft {
		ff = e.feasible(e.tb.Not(c))
	}
	if !ft && !ff {
		panic(pathAbort{"infeasible", "both sides infeasible at " + label})
	}
	prefix := append([]int64{}, e.decisions[:e.decPos]...)
	if ft && ff {
		e.alts = append(e.alts, append(append([]int64{}, prefix...), 0))
	}
	var d int64
	if ft {
		d = 1
	}
	e.decisions = append(prefix, d)
	e.decPos++
	if ft {
		e.addPC(c)
		return true
	}
	e.addPC(e.tb.Not(c))
	return false
}

// choose picks one of several mutually exclusive conditions.
func (e *Exec) choose(conds []*Term, label string) int {
	if e.cfg.Concrete != nil {
		for i, c := range conds {
			if c.IsTrue() {
				return i
			}
		}
		panic(pathAbort{"concrete-symbolic", "symbolic choice in concrete mode at " + label})
	}
	if e.decPos < len(e.decisions) {
		d := int(e.decisions[e.decPos])
		e.decPos++
		e.addPC(conds[d])
		return d
	}
	var feas []int
	for i, c := range conds {
		if e.feasible(c) {
			feas = append(feas, i)
		}
	}
	if len(feas) == 0 {
		panic(pathAbort{"infeasible", "no feasible alternative at " + label})
	}
	prefix := append([]int64{}, e.decisions[:e.decPos]...)
	for _, i := range feas[1:] {
		e.alts = append(e.alts, append(append([]int64{}, prefix...), int64(i)))
	}
	e.decisions = append(prefix, int64(feas[0]))
	e.decPos++
	e.addPC(conds[feas[0]])
	return feas[0]
}

// concretize case-splits a term over its feasible values in [lo,hi].
func (e *Exec) concretize(t *Term, lo, hi int, what string) int {
	if t.IsConst() {
		return int(int64(t.val))
	}
	if e.cfg.Concrete != nil {
		panic(pathAbort{"concrete-symbolic", "symbolic " + what + " in concrete mode"})
	}
	if e.decPos < len(e.decisions) {
		v := e.decisions[e.decPos]
		e.decPos++
		e.addPC(e.tb.Eq(t, e.tb.Const(t.w, uint64(v))))
		return int(v)
	}
	var vals []int64
	excl := []*Term{}
	maxCount := hi - lo + 1
	if maxCount > e.cfg.MaxConcretize+1 {
		maxCount = e.cfg.MaxConcretize + 1
	}
	for {
		r := e.sol.Prove(e.tb, append(e.slicePC(t), excl...), []*Term{t}, e.cfg.FeasTimeout)
		if r.Status == "unsat" {
			break
		}
		if r.Status != "sat" {
			panic(pathAbort{"bound", "cannot enumerate values of " + what + ": " + r.Note})
		}
		v := int64(r.Model[t.ref()])
		if t.w < 64 {
			v = sext64(uint64(v), t.w)
		}
		if v < int64(lo) || v > int64(hi) || len(vals) >= maxCount {
			// never silently dropped: the path is reported as not decided
			panic(pathAbort{"bound", fmt.Sprintf("%s has more than %d feasible values or a value outside [%d,%d] (e.g. %d)", what, maxCount, lo, hi, v)})
		}
		vals = append(vals, v)
		excl = append(excl, e.tb.Ne(t, e.tb.Const(t.w, uint64(v))))
	}
	if len(vals) == 0 {
		panic(pathAbort{"infeasible", "no value for " + what})
	}
	sort.Slice(vals, func(i, j int) bool { return vals[i] < vals[j] })
	prefix := append([]int64{}, e.decisions[:e.decPos]...)
	for _, v := range vals[1:] {
		e.alts = append(e.alts, append(append([]int64{}, prefix...), v))
	}
	e.decisions = append(prefix, vals[0])
	e.decPos++
	e.addPC(e.tb.Eq(t, e.tb.Const(t.w, uint64(vals[0]))))
	return int(vals[0])
}

// ---------- trail (undo log) ----------

func (e *Exec) setLeaf(c *Cell, v Value) {
	if e.trailOn {
		e.trail = append(e.trail, trailEnt{c: c, old: c.v})
	}
	c.v = v
}

func (e *Exec) rollback() {
	for i := len(e.trail) - 1; i >= 0; i-- {
		t := e.trail[i]
		if t.c != nil {
			t.c.v = t.old
		} else {
			t.m.keys = t.mk
			t.m.vals = t.mv
		}
	}
	e.trail = e.trail[:0]
}

func (e *Exec) noteWrite(o *Obj, what string) {
	if o == nil {
		return
	}
	if e.opaque["ininit"].(int) > 0 {
		return
	}
	if o.prot || o.pooled {
		site := ""
		if e.curFrame != nil {
			site = e.curFrame.fn.String()
		}
		e.writes = append(e.writes, writeEvent{obj: o, what: what, site: site})
	}
}

// ---------- globals and package initialisation ----------

func (e *Exec) globalCell(g *ssa.Global) *Cell {
	if c, ok := e.globals[g]; ok {
		return c
	}
	t := g.Type().(*types.Pointer).Elem()
	obj := &Obj{kind: "global", label: g.String(), prot: !strings.HasPrefix(g.Name(), "verif")}
	e.nextObj++
	obj.id = e.nextObj
	c := e.newCell(t, obj, nil)
	e.globals[g] = c
	if g.Pkg != nil {
		e.ensureInit(g.Pkg)
	}
	return c
}

func (e *Exec) ensureInit(p *ssa.Package) {
	if e.initDone[p] {
		return
	}
	e.initDone[p] = true
	initFn := p.Func("init")
	if initFn == nil || len(initFn.Blocks) == 0 {
		return
	}
	saveEpoch, saveFrame, saveTrail, saveDepth := e.epoch, e.curFrame, e.trailOn, e.depth
	e.epoch = 0
	e.trailOn = false
	e.curFrame = nil
	defer func() { e.epoch = saveEpoch; e.curFrame = saveFrame; e.trailOn = saveTrail; e.depth = saveDepth }()
	e.opaque["ininit"] = e.opaque["ininit"].(int) + 1
	defer func() { e.opaque["ininit"] = e.opaque["ininit"].(int) - 1 }()
	e.call(&FuncV{fn: initFn}, nil, nil)
	// package state: everything the package's own variables reach after initialisation (tables,
	// default parameter objects, variables captured by stored closures) is shared between all
	// later operations; a write to it by an operation under test is reported by the frame rule
	e.protectPackageState(p)
}

// ---------- calls ----------

func (e *Exec) call(fv Value, args []Value, site *ssa.CallCommon) Value {
	f, ok := fv.(*FuncV)
	if !ok || (f.fn == nil && f.name == "") {
		panic(&goPanic{val: e.runtimeError("call of nil function"), site: e.site()})
	}
	if f.fn == nil {
		h := intrinsics[f.name]
		if h == nil {
			panic(e.unsupported("intrinsic " + f.name))
		}
		if f.recv != nil {
			args = append([]Value{f.recv}, args...)
		}
		e.intrinUsed[f.name] = true
		return h(e, args, site)
	}
	fn := f.fn
	name := fn.String()
	if rep, ok := e.replaceFn[name]; ok && (e.curFrame == nil || e.curFrame.fn != rep) {
		fn = rep
		name = fn.String()
		f = &FuncV{fn: rep}
	}
	if h, ok := intrinsics[name]; ok {
		e.intrinUsed[name] = true
		return h(e, append(append([]Value{}, f.bind...), args...), site)
	}
	if name == "strconv.ParseUint" && len(args) == 3 {
		// contract: ParseUint(Sprintf("%d", x), 10, b) == x when 0 <= x < 2^b, a range/syntax error otherwise
		if sv, ok := args[0].(*StrV); ok && sv.arr != nil {
			if di, ok := e.decStr[sv.arr]; ok {
				base, bits := args[1].(*Term), args[2].(*Term)
				if base.IsConst() && base.val == 10 && bits.IsConst() {
					e.intrinUsed["strconv.ParseUint(decimal text of %d)"] = true
					b := int(bits.val)
					if b == 0 {
						b = 64
					}
					x := e.tb.Resize(di.val, 64, di.signed)
					fits := e.tb.True()
					if di.signed {
						fits = e.tb.Sle(e.c64(0), x)
					}
					if b < 64 {
						fits = e.tb.And(fits, e.tb.Ult(x, e.c64(1<<uint(b))))
					}
					if e.branch(fits, "parseuint-fits") {
						return &TupleV{E: []Value{x, &IfaceV{}}}
					}
					rec := &fmtRecord{format: "strconv.ParseUint: value out of range", exact: true, str: e.constString("strconv.ParseUint: value out of range")}
					return &TupleV{E: []Value{e.c64(0), &IfaceV{typ: nil, v: &OpaqueV{kind: "fmterror", data: rec}}}}
				}
			}
		}
	}
	if name == "strconv.Atoi" && len(args) == 1 {
		// contract: Atoi(Sprintf("%d", x)) == x for the opaque decimal text of a symbolic integer
		if sv, ok := args[0].(*StrV); ok && sv.arr != nil {
			if di, ok := e.decStr[sv.arr]; ok {
				e.intrinUsed["strconv.Atoi(decimal text of %d)"] = true
				return &TupleV{E: []Value{e.tb.Resize(di.val, 64, di.signed), &IfaceV{}}}
			}
		}
	}
	// package init functions of other packages are run lazily (on first global access)
	if fn.Name() == "init" && fn.Synthetic != "" && e.curFrame != nil && e.curFrame.fn.Name() == "init" && e.curFrame.fn.Synthetic != "" {
		return &TupleV{}
	}
	if len(fn.Blocks) == 0 {
		if h, ok := harnessIntrinsics[fn.Name()]; ok && strings.HasPrefix(fn.Name(), "verif") {
			return h(e, args, site)
		}
		panic(e.unsupported("function without body: " + name))
	}
	if e.depth > 200 {
		panic(pathAbort{"unwind", "call depth exceeded in " + name})
	}
	e.funcsSeen[fn] = true
	fr := &Frame{fn: fn, locals: map[ssa.Value]Value{}, backEdge: map[[2]int]int{}, caller: e.curFrame}
	if len(args) != len(fn.Params) {
		panic(e.internal(fmt.Sprintf("call %s: %d args for %d params", name, len(args), len(fn.Params))))
	}
	for i, p := range fn.Params {
		fr.locals[p] = args[i]
	}
	for i, fvn := range fn.FreeVars {
		fr.locals[fvn] = f.bind[i]
	}
	save := e.curFrame
	e.curFrame = fr
	e.depth++
	defer func() { e.curFrame = save; e.depth-- }()
	return e.runFrame(fr)
}

func (e *Exec) site() string {
	if e.curFrame == nil {
		return "?"
	}
	return e.curFrame.fn.String()
}

func (e *Exec) runtimeError(msg string) Value {
	return &IfaceV{typ: nil, v: &OpaqueV{kind: "runtime.Error", data: msg}}
}

// runFrame executes the function body, handling Go panics via deferred calls.
func (e *Exec) runFrame(fr *Frame) (ret Value) {
	var pending *goPanic
	func() {
		defer func() {
			if r := recover(); r != nil {
				if gp, ok := r.(*goPanic); ok {
					pending = gp
					return
				}
				panic(r)
			}
		}()
		ret = e.runBlocks(fr, fr.fn.Blocks[0])
	}()
	if pending == nil {
		return ret
	}
	// panicking: run deferred calls
	fr.panic = pending
	e.runDefers(fr)
	if fr.panic != nil {
		panic(fr.panic)
	}
	// recovered
	if fr.fn.Recover != nil {
		e.curFrame = fr
		return e.runBlocks(fr, fr.fn.Recover)
	}
	return e.zero(fr.fn.Signature.Results())
}

func (e *Exec) runDefers(fr *Frame) {
	for len(fr.defers) > 0 {
		d := fr.defers[len(fr.defers)-1]
		fr.defers = fr.defers[:len(fr.defers)-1]
		func() {
			defer func() {
				if r := recover(); r != nil {
					if gp, ok := r.(*goPanic); ok {
						fr.panic = gp // a new panic replaces the current one
						return
					}
					panic(r)
				}
			}()
			save := e.opaque["deferOwner"]
			e.opaque["deferOwner"] = fr
			defer func() { e.opaque["deferOwner"] = save }()
			e.callDeferred(fr, d)
		}()
	}
}

func (e *Exec) callDeferred(fr *Frame, d deferred) {
	if d.call != nil && d.call.IsInvoke() {
		e.invoke(d.fn, d.call.Method, d.args, d.call)
		return
	}
	if b, ok := d.fn.(*OpaqueV); ok && b.kind == "builtin" {
		e.builtin(b.data.(string), d.args, nil)
		return
	}
	e.call(d.fn, d.args, d.call)
}

func (e *Exec) runBlocks(fr *Frame, b *ssa.BasicBlock) Value {
	var prev *ssa.BasicBlock
	for {
		next, ret, done := e.runBlock(fr, b, prev)
		if done {
			return ret
		}
		// back-edge accounting for the unwinding assertion
		if next.Index <= b.Index {
			k := [2]int{b.Index, next.Index}
			fr.backEdge[k]++
			limit := e.cfg.Unwind
			if strings.HasPrefix(fr.fn.Name(), "verif") {
				limit = 1000000 // harness / spec code: not subject to the unwinding assertion
			}
			if fr.backEdge[k] > limit {
				panic(pathAbort{"unwind", fmt.Sprintf("loop in %s (block %d) exceeded unwinding bound %d", fr.fn, next.Index, e.cfg.Unwind)})
			}
		}
		prev, b = b, next
	}
}

func (e *Exec) get(fr *Frame, v ssa.Value) Value {
	switch x := v.(type) {
	case *ssa.Const:
		return e.constVal(x)
	case *ssa.Global:
		return &PtrV{c: e.globalCell(x)}
	case *ssa.Function:
		return &FuncV{fn: x}
	case *ssa.Builtin:
		return &OpaqueV{kind: "builtin", data: x.Name()}
	}
	r, ok := fr.locals[v]
	if !ok {
		panic(e.internal(fmt.Sprintf("no value for %s (%T) in %s", v.Name(), v, fr.fn)))
	}
	return r
}

func (e *Exec) constVal(c *ssa.Const) Value {
	t := c.Type()
	if c.Value == nil {
		return e.zero(t)
	}
	if isString(t) {
		return e.constString(constant.StringVal(c.Value))
	}
	if isFloat(t) {
		return &OpaqueV{kind: "float", data: c.Value}
	}
	w, _, ok := intWidth(t)
	if !ok {
		panic(e.unsupported("constant of type " + t.String()))
	}
	if w == 0 {
		return e.tb.Bool(constant.BoolVal(c.Value))
	}
	if i, ok := constant.Int64Val(constant.ToInt(c.Value)); ok {
		return e.tb.Const(w, uint64(i))
	}
	u, _ := constant.Uint64Val(constant.ToInt(c.Value))
	return e.tb.Const(w, u)
}

func (e *Exec) runBlock(fr *Frame, b *ssa.BasicBlock, prev *ssa.BasicBlock) (next *ssa.BasicBlock, ret Value, done bool) {
	for _, ins := range b.Instrs {
		e.steps++
		if e.steps > e.cfg.MaxSteps {
			panic(pathAbort{"steps", "instruction budget exceeded"})
		}
		if e.cfg.Trace {
			fmt.Fprintf(os.Stderr, "  %s: %s\n", fr.fn.Name(), ins)
		}
		switch x := ins.(type) {
		case *ssa.DebugRef:
		case *ssa.Phi:
			for i, p := range b.Preds {
				if p == prev {
					fr.locals[x] = e.get(fr, x.Edges[i])
					break
				}
			}
		case *ssa.If:
			c := e.get(fr, x.Cond).(*Term)
			if e.branch(c, fr.fn.Name()) {
				e.traceBranch(fr, b, c, 1)
				return b.Succs[0], nil, false
			}
			e.traceBranch(fr, b, c, 0)
			return b.Succs[1], nil, false
		case *ssa.Jump:
			return b.Succs[0], nil, false
		case *ssa.Return:
			var rv Value
			switch len(x.Results) {
			case 0:
				rv = &TupleV{}
			case 1:
				rv = e.get(fr, x.Results[0])
			default:
				t := &TupleV{}
				for _, r := range x.Results {
					t.E = append(t.E, e.get(fr, r))
				}
				rv = t
			}
			return nil, rv, true
		case *ssa.RunDefers:
			e.runDefers(fr)
			e.curFrame = fr
		case *ssa.Panic:
			panic(&goPanic{val: e.get(fr, x.X), site: fr.fn.String()})
		case *ssa.Store:
			e.store(e.get(fr, x.Addr), e.get(fr, x.Val))
		case *ssa.MapUpdate:
			e.mapUpdate(e.get(fr, x.Map), e.get(fr, x.Key), e.get(fr, x.Value))
		case *ssa.Defer:
			d := deferred{call: &x.Call}
			if x.Call.IsInvoke() {
				d.fn = e.get(fr, x.Call.Value)
			} else {
				d.fn = e.get(fr, x.Call.Value)
			}
			for _, a := range x.Call.Args {
				d.args = append(d.args, e.get(fr, a))
			}
			fr.defers = append(fr.defers, d)
		case *ssa.Go, *ssa.Send, *ssa.Select:
			panic(e.unsupported(fmt.Sprintf("instruction %T", ins)))
		case ssa.Value:
			fr.locals[x] = e.evalValue(fr, x)
			e.curFrame = fr
		default:
			panic(e.unsupported(fmt.Sprintf("instruction %T", ins)))
		}
	}
	panic(e.internal("block fell through"))
}

func (e *Exec) evalValue(fr *Frame, v ssa.Value) Value {
	switch x := v.(type) {
	case *ssa.Alloc:
		kind := "alloc"
		obj := e.newObj(kind, fr.fn.Name()+":"+x.Comment)
		return &PtrV{c: e.newCell(x.Type().(*types.Pointer).Elem(), obj, nil)}
	case *ssa.BinOp:
		return e.binop(x.Op, e.get(fr, x.X), e.get(fr, x.Y), x.X.Type(), x.Y.Type(), x)
	case *ssa.UnOp:
		return e.unop(x, e.get(fr, x.X))
	case *ssa.Call:
		return e.doCall(fr, &x.Call)
	case *ssa.ChangeType:
		return e.get(fr, x.X)
	case *ssa.ChangeInterface:
		return e.get(fr, x.X)
	case *ssa.Convert:
		return e.convert(e.get(fr, x.X), x.X.Type(), x.Type())
	case *ssa.MakeInterface:
		return &IfaceV{typ: x.X.Type(), v: e.get(fr, x.X)}
	case *ssa.Extract:
		return e.get(fr, x.Tuple).(*TupleV).E[x.Index]
	case *ssa.Field:
		return e.get(fr, x.X).(*StructV).F[x.Field]
	case *ssa.FieldAddr:
		p := e.get(fr, x.X).(*PtrV)
		if p.c == nil {
			panic(&goPanic{val: e.runtimeError("nil pointer dereference"), site: fr.fn.String()})
		}
		return &PtrV{c: p.c.kids[x.Field]}
	case *ssa.Index:
		return e.indexValue(e.get(fr, x.X), e.get(fr, x.Index).(*Term), x.Index.Type())
	case *ssa.IndexAddr:
		return e.indexAddr(e.get(fr, x.X), e.get(fr, x.Index).(*Term), x.Index.Type())
	case *ssa.Lookup:
		return e.lookup(e.get(fr, x.X), e.get(fr, x.Index), x.CommaOk, x.X.Type(), x.Index.Type())
	case *ssa.MakeClosure:
		f := &FuncV{fn: x.Fn.(*ssa.Function)}
		for _, b := range x.Bindings {
			f.bind = append(f.bind, e.get(fr, b))
		}
		return f
	case *ssa.MakeMap:
		mt := x.Type().Underlying().(*types.Map)
		return &MapV{m: &MapObj{kt: mt.Key(), vt: mt.Elem(), obj: e.newObj("alloc", "map")}}
	case *ssa.MakeSlice:
		return e.makeSlice(x.Type(), e.get(fr, x.Len).(*Term), e.get(fr, x.Cap).(*Term), x.Len.Type())
	case *ssa.Slice:
		var lo, hi, max *Term
		if x.Low != nil {
			lo = e.toInt64(e.get(fr, x.Low).(*Term), x.Low.Type())
		}
		if x.High != nil {
			hi = e.toInt64(e.get(fr, x.High).(*Term), x.High.Type())
		}
		if x.Max != nil {
			max = e.toInt64(e.get(fr, x.Max).(*Term), x.Max.Type())
		}
		return e.sliceOp(e.get(fr, x.X), lo, hi, max)
	case *ssa.TypeAssert:
		return e.typeAssert(x, e.get(fr, x.X))
	case *ssa.Range:
		return e.rangeInit(e.get(fr, x.X))
	case *ssa.Next:
		return e.rangeNext(e.get(fr, x.Iter), x.IsString)
	case *ssa.SliceToArrayPointer:
		s := e.get(fr, x.X).(*SliceV)
		return e.sliceToArrayPtr(s, x.Type())
	case *ssa.MakeChan:
		return &OpaqueV{kind: "chan"}
	}
	panic(e.unsupported(fmt.Sprintf("value instruction %T", v)))
}

func (e *Exec) toInt64(t *Term, typ types.Type) *Term {
	_, signed, _ := intWidth(typ)
	return e.tb.Resize(t, 64, signed)
}

// ---------- loads / stores ----------

func (e *Exec) nilDeref() {
	panic(&goPanic{val: e.runtimeError("invalid memory address or nil pointer dereference"), site: e.site()})
}

func (e *Exec) load(p Value) Value {
	switch q := p.(type) {
	case *PtrV:
		if q.c == nil {
			e.nilDeref()
		}
		e.noteRead(q.c.obj)
		v := e.loadCell(q.c)
		if q.view != nil {
			return e.reinterpret(v, q.view)
		}
		return v
	case *ElemPtrV:
		e.noteRead(q.arr.obj)
		return e.arrGet(q.arr, q.idx)
	}
	panic(e.internal(fmt.Sprintf("load through %T", p)))
}

func (e *Exec) noteRead(o *Obj) {
	if o != nil && o.pooled {
		e.writes = append(e.writes, writeEvent{obj: o, what: "read-after-put", site: e.site()})
	}
}

func (e *Exec) reinterpret(v Value, t types.Type) Value {
	if isString(t) {
		if s, ok := v.(*SliceV); ok {
			return &StrV{arr: s.arr, off: s.off, len: s.len}
		}
	}
	if _, ok := t.Underlying().(*types.Slice); ok {
		if s, ok := v.(*StrV); ok {
			return &SliceV{arr: s.arr, off: s.off, len: s.len, cap: s.len}
		}
	}
	panic(e.unsupported("unsafe reinterpretation as " + t.String()))
}

func (e *Exec) store(p Value, v Value) {
	switch q := p.(type) {
	case *PtrV:
		if q.c == nil {
			e.nilDeref()
		}
		if q.view != nil {
			panic(e.unsupported("store through unsafe view"))
		}
		e.noteWrite(q.c.obj, "store")
		e.storeTrail(q.c, v)
		return
	case *ElemPtrV:
		e.arrSetTrail(q.arr, q.idx, v)
		return
	}
	panic(e.internal(fmt.Sprintf("store through %T", p)))
}

func (e *Exec) storeTrail(c *Cell, v Value) {
	if c.kids != nil {
		s, ok := v.(*StructV)
		if !ok {
			panic(e.internal(fmt.Sprintf("store %T into struct cell", v)))
		}
		for i, k := range c.kids {
			e.storeTrail(k, s.F[i])
		}
		return
	}
	if c.arr != nil {
		a, ok := v.(*ArrayV)
		if !ok {
			panic(e.internal(fmt.Sprintf("store %T into array cell", v)))
		}
		for i, k := range c.arr.cells {
			e.storeTrail(k, a.E[i])
		}
		return
	}
	e.setLeaf(c, v)
}

func (e *Exec) arrSetTrail(a *Arr, idx *Term, v Value) {
	e.noteWrite(a.obj, "store")
	if a.ro {
		panic(e.internal("write to read-only (string) data"))
	}
	if idx.IsConst() {
		e.storeTrail(a.cells[int(idx.val)], v)
		return
	}
	if t, ok := v.(*Term); ok {
		for i, c := range a.cells {
			old := c.v.(*Term)
			e.setLeaf(c, e.tb.Ite(e.tb.Eq(idx, e.c64(int64(i))), t, old))
		}
		return
	}
	i := e.concretize(idx, 0, len(a.cells)-1, "index")
	e.storeTrail(a.cells[i], v)
}

// ---------- indexing, slicing ----------

func (e *Exec) boundsPanic(cond *Term, what string) {
	// cond = the access is out of range
	if cond.IsFalse() {
		return
	}
	if e.branch(cond, "bounds:"+what) {
		panic(&goPanic{val: e.runtimeError(what), site: e.site()})
	}
}

func (e *Exec) indexAddr(x Value, idx *Term, idxT types.Type) Value {
	i := e.toInt64(idx, idxT)
	switch q := x.(type) {
	case *PtrV: // pointer to array
		if q.c == nil {
			e.nilDeref()
		}
		a := q.c.arr
		if a == nil {
			panic(e.internal("IndexAddr on non-array pointer"))
		}
		n := e.c64(int64(len(a.cells)))
		e.boundsPanic(e.tb.Not(e.tb.Ult(i, n)), "index out of range")
		e.traceIndex(i)
		if i.IsConst() {
			return &PtrV{c: a.cells[int(i.val)]}
		}
		if !scalarCells(a) {
			return &PtrV{c: a.cells[e.concretize(i, 0, len(a.cells)-1, "index of non-scalar element")]}
		}
		return &ElemPtrV{arr: a, idx: i}
	case *SliceV:
		e.boundsPanic(e.tb.Not(e.tb.Ult(i, q.len)), "index out of range")
		e.traceIndex(i)
		if q.arr == nil {
			panic(e.internal("index into nil slice passed bounds check"))
		}
		j := e.tb.Add(q.off, i)
		if j.IsConst() {
			return &PtrV{c: q.arr.cells[int(j.val)]}
		}
		if !scalarCells(q.arr) {
			return &PtrV{c: q.arr.cells[e.concretize(j, 0, len(q.arr.cells)-1, "index of non-scalar element")]}
		}
		return &ElemPtrV{arr: q.arr, idx: j}
	}
	panic(e.internal(fmt.Sprintf("IndexAddr on %T", x)))
}

func (e *Exec) indexValue(x Value, idx *Term, idxT types.Type) Value {
	i := e.toInt64(idx, idxT)
	switch q := x.(type) {
	case *StrV:
		e.boundsPanic(e.tb.Not(e.tb.Ult(i, q.len)), "string index out of range")
		e.traceIndex(i)
		return e.arrGet(q.arr, e.tb.Add(q.off, i))
	case *ArrayV:
		n := e.c64(int64(len(q.E)))
		e.boundsPanic(e.tb.Not(e.tb.Ult(i, n)), "index out of range")
		if i.IsConst() {
			return q.E[int(i.val)]
		}
		if len(q.E) > 0 {
			if _, ok := q.E[0].(*Term); ok {
				ts := make([]*Term, len(q.E))
				for k := range ts {
					ts[k] = q.E[k].(*Term)
				}
				return e.selectTree(i, ts)
			}
		}
		k := e.concretize(i, 0, len(q.E)-1, "index")
		return q.E[k]
	}
	panic(e.internal(fmt.Sprintf("Index on %T", x)))
}

func (e *Exec) sliceOp(x Value, lo, hi, max *Term) Value {
	tb := e.tb
	if lo == nil {
		lo = e.c64(0)
	}
	switch q := x.(type) {
	case *StrV:
		if hi == nil {
			hi = q.len
		}
		bad := tb.Or(tb.Not(tb.Ule(hi, q.len)), tb.Not(tb.Ule(lo, hi)))
		e.boundsPanic(bad, "slice bounds out of range")
		return &StrV{arr: q.arr, off: tb.Add(q.off, lo), len: tb.Sub(hi, lo)}
	case *SliceV:
		if hi == nil {
			hi = q.len
		}
		if max == nil {
			max = q.cap
		}
		bad := tb.Or(tb.Not(tb.Ule(max, q.cap)), tb.Not(tb.Ule(hi, max)), tb.Not(tb.Ule(lo, hi)))
		e.boundsPanic(bad, "slice bounds out of range")
		return &SliceV{arr: q.arr, off: tb.Add(q.off, lo), len: tb.Sub(hi, lo), cap: tb.Sub(max, lo)}
	case *PtrV:
		if q.c == nil {
			e.nilDeref()
		}
		a := q.c.arr
		n := e.c64(int64(len(a.cells)))
		if hi == nil {
			hi = n
		}
		if max == nil {
			max = n
		}
		bad := tb.Or(tb.Not(tb.Ule(max, n)), tb.Not(tb.Ule(hi, max)), tb.Not(tb.Ule(lo, hi)))
		e.boundsPanic(bad, "slice bounds out of range")
		return &SliceV{arr: a, off: lo, len: tb.Sub(hi, lo), cap: tb.Sub(max, lo)}
	}
	panic(e.internal(fmt.Sprintf("Slice on %T", x)))
}

func (e *Exec) sliceToArrayPtr(s *SliceV, t types.Type) Value {
	at := t.(*types.Pointer).Elem().Underlying().(*types.Array)
	n := at.Len()
	e.boundsPanic(e.tb.Ult(s.len, e.c64(n)), "slice to array pointer: length too short")
	if n == 0 || s.arr == nil {
		panic(e.unsupported("SliceToArrayPointer of empty"))
	}
	off := e.concLen(s.off, "slice offset")
	// view: a new array cell sharing the element cells
	e.nextArr++
	a := &Arr{id: e.nextArr, elem: at.Elem(), cells: s.arr.cells[off : off+int(n)], obj: s.arr.obj}
	return &PtrV{c: &Cell{typ: at, arr: a, obj: s.arr.obj}}
}

func (e *Exec) makeSlice(t types.Type, ln, cp *Term, lenT types.Type) Value {
	ln = e.toInt64(ln, lenT)
	cp = e.toInt64(cp, lenT)
	tb := e.tb
	bad := tb.Or(tb.Slt(ln, e.c64(0)), tb.Slt(cp, ln))
	if !bad.IsFalse() {
		if e.branch(bad, "makeslice") {
			panic(&goPanic{val: e.runtimeError("makeslice: len out of range"), site: e.site()})
		}
	}
	var n int
	if cp.IsConst() {
		n = int(int64(cp.val))
	} else {
		// symbolic size: a backing array for the smallest threshold the size provably stays below
		n = -1
		if ub := upperBound(cp); ub <= 4096 {
			n = int(ub)
		} else {
			for _, th := range []int64{64, 256, 1024, 4096} {
				if !e.feasible(tb.Slt(e.c64(th), cp)) {
					n = int(th)
					break
				}
			}
		}
		if n < 0 {
			panic(pathAbort{"bound", "make with a symbolic size that may exceed 4096 elements"})
		}
	}
	if n > 1<<24 {
		panic(pathAbort{"bound", "make size beyond 2^24"})
	}
	el := t.Underlying().(*types.Slice).Elem()
	a := e.newArr(el, n, e.newObj("alloc", "makeslice@"+e.site()), nil)
	return &SliceV{arr: a, off: e.c64(0), len: ln, cap: cp}
}

// ---------- type assertions ----------

func (e *Exec) typeAssert(x *ssa.TypeAssert, v Value) Value {
	iv := v.(*IfaceV)
	ok := false
	if iv.typ != nil {
		if types.IsInterface(x.AssertedType) {
			ok = types.Implements(iv.typ, x.AssertedType.Underlying().(*types.Interface))
		} else {
			ok = types.Identical(iv.typ, x.AssertedType)
		}
	}
	var res Value
	if ok {
		if types.IsInterface(x.AssertedType) {
			res = iv
		} else {
			res = iv.v
		}
	} else {
		if !x.CommaOk {
			panic(&goPanic{val: e.runtimeError("interface conversion failed"), site: e.site()})
		}
		res = e.zero(x.AssertedType)
	}
	if x.CommaOk {
		return &TupleV{E: []Value{res, e.tb.Bool(ok)}}
	}
	return res
}

// ---------- calls ----------

func (e *Exec) doCall(fr *Frame, c *ssa.CallCommon) Value {
	var args []Value
	for _, a := range c.Args {
		args = append(args, e.get(fr, a))
	}
	if c.IsInvoke() {
		return e.invoke(e.get(fr, c.Value), c.Method, args, c)
	}
	fv := e.get(fr, c.Value)
	if b, ok := fv.(*OpaqueV); ok && b.kind == "builtin" {
		return e.builtin(b.data.(string), args, c)
	}
	return e.call(fv, args, c)
}

func (e *Exec) invoke(recv Value, m *types.Func, args []Value, c *ssa.CallCommon) Value {
	iv, ok := recv.(*IfaceV)
	if !ok {
		panic(e.internal(fmt.Sprintf("invoke on %T", recv)))
	}
	if iv.typ == nil {
		if ov, ok := iv.v.(*OpaqueV); ok {
			return e.opaqueInvoke(ov, m.Name(), args, c)
		}
		e.nilDeref()
	}
	if ov, ok := iv.v.(*OpaqueV); ok && ov.kind != "float" {
		return e.opaqueInvoke(ov, m.Name(), args, c)
	}
	ms := e.prog.MethodSets.MethodSet(iv.typ)
	sel := ms.Lookup(m.Pkg(), m.Name())
	if sel == nil {
		panic(e.internal("method " + m.Name() + " not found on " + iv.typ.String()))
	}
	fn := e.prog.MethodValue(sel)
	if fn == nil {
		panic(e.unsupported("abstract method " + m.Name()))
	}
	return e.call(&FuncV{fn: fn}, append([]Value{iv.v}, args...), c)
}

// ---------- misc ----------

func (e *Exec) traceBranch(fr *Frame, b *ssa.BasicBlock, c *Term, side int) {
	if e.opaque["tracing"] == true && !c.IsConst() {
		e.traceEv = append(e.traceEv, fmt.Sprintf("%s#%d:%d", fr.fn.Name(), b.Index, side))
	}
}

func (e *Exec) traceIndex(i *Term) {
	if e.opaque["tracing"] == true && !i.IsConst() {
		e.opaque["idxterms"] = append(e.opaque["idxterms"].([]*Term), i)
	}
}

func posStr(fset *token.FileSet, p token.Pos) string {
	if !p.IsValid() {
		return "?"
	}
	ps := fset.Position(p)
	f := ps.Filename
	if i := strings.LastIndex(f, "/"); i >= 0 {
		f = f[i+1:]
	}
	return fmt.Sprintf("%s:%d", f, ps.Line)
}

func scalarCells(a *Arr) bool {
	if len(a.cells) == 0 {
		return true
	}
	c := a.cells[0]
	if c.kids != nil || c.arr != nil {
		return false
	}
	_, ok := c.v.(*Term)
	return ok
}

// uniqueValue: the value of t if the path condition admits exactly one (no fork, no decision).
func (e *Exec) uniqueValue(t *Term) (int64, bool) {
	if t.IsConst() {
		return int64(t.val), true
	}
	if e.cfg.Concrete != nil {
		return 0, false
	}
	// cheap: an equality with a constant already in the path condition
	for _, p := range e.pc {
		if p.op == OpEq && p.args[0].IsConst() && p.args[1] == t {
			return int64(p.args[0].val), true
		}
	}
	r := e.sol.Model(e.tb, e.slicePC(t), []*Term{t}, e.cfg.FeasTimeout)
	if r.Status != "sat" {
		return 0, false
	}
	v := r.Model[t.ref()]
	if e.feasible(e.tb.Ne(t, e.tb.Const(t.w, v))) {
		return 0, false
	}
	e.addPCKind(e.tb.Eq(t, e.tb.Const(t.w, v)), 'p')
	return int64(v), true
}
