package api

import (
	"github.com/valyala/fasthttp"
)

// C19 — the REST service answers every request promptly and keeps serving (handler level):
// for every outcome of the stubs (any method, routed or unknown path, undecodable body, every
// field value after decoding) the chain Logger(Recovery(routers)) terminates within the unwinding
// bound, sets a status and a body, reports 200 only for success, and writes no shared state.

var verifPaths = []string{"/totp/generate", "/totp/validate", "/hotp/generate", "/hotp/validate", "/ocra/generate", "/ocra/validate",
	"/ocra/suites", "/ocra/suite", "/otp/url", "/otp/secret", "/", "/nope"}

func verifSymSuite() *suiteConfig {
	if verifCase("raw") != 0 || verifBool("suite.nil") {
		return nil // a structured suite only together with an empty raw name (keeps the path count down)
	}
	return &suiteConfig{HashFunction: verifAlgText[1], CodeDigits: verifInt("suite.digits"), ChallengeFormat: verifInt("suite.challenge"),
		IncludeCounter: verifBool("suite.C"), IncludeChallenge: verifBool("suite.Q"), IncludePassword: false,
		IncludeSession: false, IncludeTimestamp: verifBool("suite.T"), PasswordHash: verifInt("suite.ph"), Timestep: verifInt("suite.ts")}
}

func verifSymOCRAInput() *ocraInput {
	if verifBool("input.nil") {
		return nil
	}
	return &ocraInput{CounterHex: verifASCII("in.c", 2), ChallengeHex: verifASCII("in.q", 2), PasswordHex: "", SessionInfoHex: "", TimestampHex: verifASCII("in.t", 2)}
}

// any period; counterexample models prefer one that differs from the default (a stale or
// shared period then shows in the native probe sequence)
func verifSymPeriod() uint {
	p := verifUint("period")
	verifPrefer(verifAnd(p >= 31, p <= 90))
	return p
}

// the request body for a path (any field values), or nil
func verifBodyFor(path string) any {
	switch path {
	case "/totp/generate", "/hotp/generate":
		return otpGenerateReq{Secret: verifASCII("secret", 2), Timestamp: verifI64("timestamp"), Counter: verifU64("counter"), Digits: verifDigitsText[verifCase("dt")], Period: verifSymPeriod(), Algorithm: verifAlgText[verifCase("at")]}
	case "/totp/validate", "/hotp/validate":
		skew := verifUint("skew")
		verifPrefer(skew >= 1)
		verifAssume(verifOr(skew <= uint(verifCase("maxskew")), skew > 10)) // windows maxskew+1..10: thorough tier
		return otpValidateReq{Secret: verifASCII("secret", 2), Timestamp: verifI64("timestamp"), Counter: verifU64("counter"), Code: verifASCII("code", 6), Digits: verifDigitsText[verifCase("dt")], Period: verifSymPeriod(), Skew: skew, Algorithm: verifAlgText[verifCase("at")]}
	case "/ocra/generate":
		return ocraGenerateReq{Secret: verifASCII("secret", 2), RawSuite: verifRawSuiteText(), Suite: verifSymSuite(), Input: verifSymOCRAInput()}
	case "/ocra/validate":
		return ocraValidateReq{Secret: verifASCII("secret", 2), Code: verifASCII("code", 6), RawSuite: verifRawSuiteText(), Suite: verifSymSuite(), Input: verifSymOCRAInput()}
	case "/ocra/suite":
		return suiteConfigReq{RawSuite: verifRawSuiteText()}
	case "/otp/url":
		return otpURLGenerateReq{Type: []string{"totp", "hotp", "x"}[verifCase("dt")%3], Secret: verifASCII("secret", 2), Issuer: verifASCII("issuer", 1), AccountName: verifASCII("account", 1), Period: verifSymPeriod(), Digits: verifDigitsText[verifCase("dt")], Algorithm: verifAlgText[verifCase("at")]}
	}
	return nil
}

func verifRawSuiteText() string {
	switch verifCase("raw") {
	case 0:
		return ""
	case 1:
		return "OCRA-1:HOTP-SHA1-6:QN08"
	case 2:
		return " "
	}
	return "OCRA-1:HOTP-SHA1-6:QN09"
}

//verif:harness prop=C19 name=chain
//verif:cases quick path=0..11 method=0,1,2 dt=0,2 at=0,3 raw=0,1,2,3 decode=0,1 maxskew=1
//verif:cases thorough path=0..11 method=0,1,2 dt=0,2,3,5 at=0,1,3,4 raw=0,1,2,3 decode=0,1 maxskew=3
//verif:replace github.com/ja7ad/otp.deriveRFC4226=verifStub_derive
//verif:opt hmac=fresh unwind=600 unwind_is_violation=1 maxpaths=8000
func verifH_C19_chain() {
	path := verifPaths[verifCase("path")]
	method := []string{"GET", "POST", "DELETE"}[verifCase("method")]
	raw := verifCase("raw")
	isOCRA := path == "/ocra/generate" || path == "/ocra/validate" || path == "/ocra/suite"
	if !isOCRA && raw != 0 {
		verifSkipCase()
	}
	noBody := path == "/ocra/suites" || path == "/otp/secret" || path == "/" || path == "/nope"
	if noBody && (verifCase("dt") != 0 || verifCase("at") != 0 || verifCase("decode") != 0) {
		verifSkipCase()
	}
	var body any
	if method == "POST" {
		body = verifBodyFor(path)
	} else if verifCase("dt") != 0 || verifCase("at") != 0 || raw != 0 || verifCase("decode") != 0 {
		verifSkipCase()
	}
	ctx := verifHTTP(method, path, "algorithm", verifAlgText[verifCase("at")], body, verifCase("decode") == 1)
	handler := Chain(Logger, Recovery)(routers)
	verifBeginOp()
	panicked := verifPanics(func() { handler(ctx) })
	verifAssert(!panicked, "no-panic-escapes-the-handler-chain")
	if panicked {
		return
	}
	status := verifHTTPStatus(ctx)
	statusSets, bodySets := verifHTTPSets(ctx)
	verifObserve("status", status)
	verifAssert(status >= 200 && status <= 599, "a-valid-status")
	verifAssert(bodySets >= 1, "a-body-is-sent")
	if verifSymbolic() {
		verifAssert(statusSets >= 1 || status == 200, "status-decided-by-the-handler")
		// ... and continues to answer subsequent well-formed requests correctly: a request that
		// writes nothing a later request can read leaves every later answer what it is on a fresh
		// process (decided for single requests in C18)
		verifAssert(verifFrameViolations() == 0, "request-writes-no-shared-state")
	} else if verifNative() {
		verifNativeProbes()
	}
	routed := path != "/nope"
	rightMethod := (method == "POST") == !(path == "/ocra/suites" || path == "/otp/secret" || path == "/")
	if method == "DELETE" {
		rightMethod = false
	}
	if !routed {
		verifAssert(status == fasthttp.StatusNotFound, "unknown-path-is-404")
		return
	}
	if !rightMethod {
		verifAssert(status == fasthttp.StatusMethodNotAllowed, "wrong-method-is-405")
		return
	}
	if method == "POST" && verifCase("decode") == 1 {
		verifAssert(status == fasthttp.StatusBadRequest, "undecodable-body-is-400")
	}
}
