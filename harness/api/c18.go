package api

import (
	"net/url"
	"strings"
	"time"

	"github.com/ja7ad/otp"
	"github.com/valyala/fasthttp"
)

// C18 — the REST service returns exactly the library's result for the request's fields
// (handler level: fasthttp / encoding/json stubbed; library operations are function symbols).

var verifDigitsText = []string{"", "6", "8", "9", "10", "7"}
var verifAlgText = []string{"", "SHA1", "SHA256", "SHA512", "sha1"}

func verifBlank(s string) bool {
	b := true
	for i := 0; i < len(s); i++ {
		c := s[i]
		b = verifAnd(b, verifOr(verifOr(c == ' ', c == '\t'), verifOr(verifOr(c == '\n', c == '\r'), verifOr(c == '\v', c == '\f'))))
	}
	return b
}

func verifASCII(name string, n int) string {
	s := verifString(name, n)
	for i := 0; i < len(s); i++ {
		verifAssume(s[i] < 0x80)
		// counterexample models should be well-formed base32 so that they replay with the real library
		verifPrefer(verifAnd(s[i] >= 'A', s[i] <= 'Z'))
	}
	return s
}

// native twin of the validation clause: the library symbols are real natively, so a witness found
// with function symbols is replayed as a sweep of real codes around the request's instant / counter
func verifNativeSweepTOTP(secret string, ts int64, dt, at string, period, skew uint) {
	digits, alg := otp.DigitsFromStr(dt), otp.AlgorithmFromStr(at)
	wp := int64(period)
	if wp == 0 {
		wp = 30
	}
	for k := int64(-12); k <= 12; k++ {
		tt := ts + k*wp
		if tt <= 0 {
			continue
		}
		code, err := otp.GenerateTOTP(strings.TrimSpace(secret), time.Unix(tt, 0), &otp.Param{Algorithm: alg, Digits: digits, Period: period})
		if err != nil {
			return
		}
		ctx := verifHTTP("POST", "/totp/validate", "", "", otpValidateReq{Secret: secret, Timestamp: ts, Code: code, Digits: dt, Period: period, Skew: skew, Algorithm: at}, false)
		routers(ctx)
		var resp otpValidateResp
		got := verifHTTPResp(ctx, &resp)
		want, _ := otp.ValidateTOTP(strings.TrimSpace(secret), code, time.Unix(ts, 0), &otp.Param{Algorithm: alg, Digits: digits, Period: period, Skew: skew})
		verifAssert(got && resp.Valid == want, "verdict-is-the-library-verdict-for-the-request-fields")
	}
}

func verifNativeSweepHOTP(secret string, counter uint64, dt, at string, skew uint) {
	digits, alg := otp.DigitsFromStr(dt), otp.AlgorithmFromStr(at)
	for k := int64(-12); k <= 12; k++ {
		c := counter + uint64(k)
		code, err := otp.GenerateHOTP(secret, c, &otp.Param{Algorithm: alg, Digits: digits})
		if err != nil {
			return
		}
		ctx := verifHTTP("POST", "/hotp/validate", "", "", otpValidateReq{Secret: secret, Counter: counter, Code: code, Digits: dt, Skew: skew, Algorithm: at}, false)
		routers(ctx)
		var resp otpValidateResp
		got := verifHTTPResp(ctx, &resp)
		want, _ := otp.ValidateHOTP(secret, code, counter, &otp.Param{Algorithm: alg, Digits: digits, Skew: skew})
		verifAssert(got && resp.Valid == want, "verdict-is-the-library-verdict-for-the-request-fields")
	}
}

// "arbitrary sequences of requests": a request that writes no state a later request can read
// leaves every later answer what it is for a single request, which the harnesses below decide.
// Symbolically this is the frame rule over everything the handler chain executes; its native
// twin (the replay of a model) is a sequence of well-formed probe requests after the request.
func verifAfterRequest() {
	if verifSymbolic() {
		verifAssert(verifFrameViolations() == 0, "request-leaves-no-state-for-later-requests")
	} else if verifNative() {
		verifNativeProbes()
	}
}

// the instant the handler must use: the request's timestamp if positive, otherwise "now"
func verifInstant(ts int64) (time.Time, bool) {
	if ts > 0 {
		return time.Unix(ts, 0), true
	}
	return time.Time{}, false
}

//verif:harness prop=C18 name=totp
//verif:cases quick op=0,1 dt=0,2,5 at=0,3,4 slen=2 
//verif:cases thorough op=0,1 dt=0..5 at=0..4 slen=1,3
//verif:replace github.com/ja7ad/otp.GenerateTOTP=verifStubAPI_GenerateTOTP
//verif:replace github.com/ja7ad/otp.ValidateTOTP=verifStubAPI_ValidateTOTP
//verif:opt maxpaths=3000
func verifH_C18_totp() {
	secret := verifASCII("secret", verifCase("slen"))
	code := verifASCII("code", 2)
	dt, at := verifDigitsText[verifCase("dt")], verifAlgText[verifCase("at")]
	ts := verifI64("timestamp")
	verifAssume(ts > 0) // the wall clock case (timestamp absent) is harness "now"
	period := verifUint("period")
	skew := verifUint("skew")
	verifPrefer(verifAnd(ts < 1<<40, verifAnd(verifAnd(period >= 1, period <= 90), verifAnd(skew <= 10, uint(period) != skew))))
	digits, alg := otp.DigitsFromStr(dt), otp.AlgorithmFromStr(at)
	t := time.Unix(ts, 0)
	if verifCase("op") == 0 {
		ctx := verifHTTP("POST", "/totp/generate", "", "", otpGenerateReq{Secret: secret, Timestamp: ts, Digits: dt, Period: period, Algorithm: at}, false)
		verifBeginOp()
		routers(ctx)
		verifAfterRequest()
		var resp otpGenerateResp
		got := verifHTTPResp(ctx, &resp)
		status := verifHTTPStatus(ctx)
		verifObserve("status", status)
		if verifBlank(secret) {
			verifAssert(status == 400, "blank-secret-is-a-client-error")
			return
		}
		wp := period
		if wp == 0 {
			wp = 30
		}
		want, werr := otp.GenerateTOTP(strings.TrimSpace(secret), t, &otp.Param{Algorithm: alg, Digits: digits, Period: wp})
		if werr != nil {
			verifAssert(status != 200, "library-error-is-not-a-success")
			return
		}
		verifAssert(status == 200, "success-status")
		verifAssert(got, "response-is-a-generation-result")
		verifAssert(verifStrEq(resp.Code, want), "code-is-the-library-result-for-the-request-fields")
		verifAssert(resp.TimeStamp == ts, "timestamp-echoed")
	} else {
		ctx := verifHTTP("POST", "/totp/validate", "", "", otpValidateReq{Secret: secret, Timestamp: ts, Code: code, Digits: dt, Period: period, Skew: skew, Algorithm: at}, false)
		verifBeginOp()
		routers(ctx)
		verifAfterRequest()
		var resp otpValidateResp
		got := verifHTTPResp(ctx, &resp)
		status := verifHTTPStatus(ctx)
		verifObserve("status", status)
		if verifOr(verifBlank(secret), verifBlank(code)) {
			verifAssert(status == 400, "blank-required-field-is-a-client-error")
			return
		}
		want, _ := otp.ValidateTOTP(strings.TrimSpace(secret), code, t, &otp.Param{Algorithm: alg, Digits: digits, Period: period, Skew: skew})
		verifAssert(status == 200, "success-status")
		verifAssert(got, "response-is-a-validation-result")
		verifAssert(resp.Valid == want, "verdict-is-the-library-verdict-for-the-request-fields")
		if !verifSymbolic() {
			verifNativeSweepTOTP(secret, ts, dt, at, period, skew)
		}
	}
}

//verif:harness prop=C18 name=hotp
//verif:cases quick op=0,1 dt=0,2,5 at=0,3,4 slen=2
//verif:cases thorough op=0,1 dt=0..5 at=0..4 slen=1,3
//verif:replace github.com/ja7ad/otp.GenerateHOTP=verifStubAPI_GenerateHOTP
//verif:replace github.com/ja7ad/otp.ValidateHOTP=verifStubAPI_ValidateHOTP
//verif:opt maxpaths=3000
func verifH_C18_hotp() {
	secret := verifASCII("secret", verifCase("slen"))
	code := verifASCII("code", 2)
	dt, at := verifDigitsText[verifCase("dt")], verifAlgText[verifCase("at")]
	counter := verifU64("counter")
	skew := verifUint("skew")
	verifPrefer(verifAnd(skew <= 10, verifAnd(counter > 100, counter < 1<<40)))
	digits, alg := otp.DigitsFromStr(dt), otp.AlgorithmFromStr(at)
	if verifCase("op") == 0 {
		ctx := verifHTTP("POST", "/hotp/generate", "", "", otpGenerateReq{Secret: secret, Counter: counter, Digits: dt, Algorithm: at}, false)
		verifBeginOp()
		routers(ctx)
		verifAfterRequest()
		var resp otpGenerateResp
		got := verifHTTPResp(ctx, &resp)
		status := verifHTTPStatus(ctx)
		verifObserve("status", status)
		if verifBlank(secret) {
			verifAssert(status == 400, "blank-secret-is-a-client-error")
			return
		}
		// white space around the secret is immaterial to the library (C07), so secret and
		// TrimSpace(secret) denote the same request
		want, werr := otp.GenerateHOTP(secret, counter, &otp.Param{Algorithm: alg, Digits: digits})
		if werr != nil {
			verifAssert(status != 200, "library-error-is-not-a-success")
			return
		}
		verifAssert(status == 200, "success-status")
		verifAssert(got, "response-is-a-generation-result")
		verifAssert(verifStrEq(resp.Code, want), "code-is-the-library-result-for-the-request-fields")
		verifAssert(resp.Counter == counter, "counter-echoed")
	} else {
		ctx := verifHTTP("POST", "/hotp/validate", "", "", otpValidateReq{Secret: secret, Counter: counter, Code: code, Digits: dt, Skew: skew, Algorithm: at}, false)
		verifBeginOp()
		routers(ctx)
		verifAfterRequest()
		var resp otpValidateResp
		got := verifHTTPResp(ctx, &resp)
		status := verifHTTPStatus(ctx)
		verifObserve("status", status)
		if verifOr(verifBlank(secret), verifBlank(code)) {
			verifAssert(status == 400, "blank-required-field-is-a-client-error")
			return
		}
		want, _ := otp.ValidateHOTP(secret, code, counter, &otp.Param{Algorithm: alg, Digits: digits, Skew: skew})
		verifAssert(status == 200, "success-status")
		verifAssert(got, "response-is-a-validation-result")
		verifAssert(resp.Valid == want, "verdict-is-the-library-verdict-for-the-request-fields")
		if !verifSymbolic() {
			verifNativeSweepHOTP(secret, counter, dt, at, skew)
		}
	}
}

// without a timestamp the handlers use the wall clock, and echo it
//
//verif:harness prop=C18 name=now
//verif:cases quick op=0,1
//verif:replace github.com/ja7ad/otp.GenerateTOTP=verifStubAPI_GenerateTOTP
//verif:replace github.com/ja7ad/otp.ValidateTOTP=verifStubAPI_ValidateTOTP
func verifH_C18_now() {
	if !verifSymbolic() {
		verifSkipCase() // the wall clock is a stub only symbolically
	}
	ts := verifI64("timestamp")
	verifAssume(ts <= 0)
	if verifCase("op") == 0 {
		ctx := verifHTTP("POST", "/totp/generate", "", "", otpGenerateReq{Secret: "AB", Timestamp: ts}, false)
		verifBeginOp()
		routers(ctx)
		verifAfterRequest()
		var resp otpGenerateResp
		if !verifHTTPResp(ctx, &resp) {
			// the library refused (function symbol's error outcome): must not be reported as success
			verifAssert(verifHTTPStatus(ctx) != 200, "library-error-is-not-a-success")
			return
		}
		// the stubbed clock yields the variable now_unix; the code must be the library's for that instant
		want, werr := otp.GenerateTOTP("AB", time.Unix(resp.TimeStamp, 0), &otp.Param{Algorithm: otp.SHA1, Digits: 6, Period: 30})
		verifAssert(werr == nil, "success-only-when-the-library-succeeds")
		verifAssert(verifStrEq(resp.Code, want), "code-is-for-the-echoed-instant")
	} else {
		ctx := verifHTTP("POST", "/totp/validate", "", "", otpValidateReq{Secret: "AB", Code: "123456", Timestamp: ts}, false)
		verifBeginOp()
		routers(ctx)
		verifAfterRequest()
		verifAssert(verifHTTPStatus(ctx) == 200, "success-status")
	}
}

//verif:harness prop=C18 name=secret
//verif:cases quick at=0..4
//verif:replace github.com/ja7ad/otp.RandomSecret=verifStubAPI_RandomSecret
func verifH_C18_secret() {
	at := verifAlgText[verifCase("at")]
	ctx := verifHTTP("GET", "/otp/secret", "algorithm", at, nil, false)
	verifBeginOp()
	routers(ctx)
	verifAfterRequest()
	var resp generateRandomSecretResp
	got := verifHTTPResp(ctx, &resp)
	alg := otp.AlgorithmFromStr(at)
	want, werr := otp.RandomSecret(alg)
	if werr != nil {
		verifAssert(verifHTTPStatus(ctx) != 200, "library-error-is-not-a-success")
		return
	}
	verifAssert(verifHTTPStatus(ctx) == 200, "success-status")
	verifAssert(got, "response-is-a-secret")
	if verifSymbolic() {
		verifAssert(verifStrEq(resp.Secret, want), "secret-is-the-library-result")
	} else {
		// natively every call draws fresh randomness: the two secrets differ; check the shape instead
		verifAssert(len(resp.Secret) == len(want) && len(want) > 0, "secret-is-the-library-result")
	}
	verifAssert(resp.Algorithm == alg.String(), "algorithm-reported")
}

// suite list and suite description reflect the library's registry
//
//verif:harness prop=C18 name=suites
//verif:cases quick k=0,17,44
//verif:cases thorough k=0..44
func verifH_C18_suites() {
	ctx := verifHTTP("GET", "/ocra/suites", "", "", nil, false)
	routers(ctx)
	var list listOCRASuiteResp
	verifAssert(verifHTTPResp(ctx, &list), "response-is-a-suite-list")
	names := otp.ListSuites()
	verifAssert(len(list.Suites) == len(names), "every-registered-suite-listed")
	for i := 1; i < len(names); i++ {
		for j := i; j > 0 && names[j] < names[j-1]; j-- {
			names[j], names[j-1] = names[j-1], names[j]
		}
	}
	k := verifCase("k")
	if k >= len(names) {
		verifSkipCase()
	}
	found := false
	for _, s := range list.Suites {
		if s == names[k] {
			found = true
		}
	}
	verifAssert(found, "registered-name-is-in-the-list")
	ctx2 := verifHTTP("POST", "/ocra/suite", "", "", suiteConfigReq{RawSuite: names[k]}, false)
	routers(ctx2)
	var sc suiteConfigResp
	verifAssert(verifHTTPResp(ctx2, &sc), "response-is-a-suite-description")
	cfg := otp.SuiteConfigFromRaws(names[k])
	verifAssert(sc.Raw == names[k], "raw-name-echoed")
	ok := sc.Config.HashFunction == cfg.Hash.String() && sc.Config.CodeDigits == cfg.Digits && sc.Config.ChallengeFormat == int(cfg.Challenge) &&
		sc.Config.IncludeCounter == cfg.IncludeCounter && sc.Config.IncludeChallenge == cfg.IncludeChallenge && sc.Config.IncludePassword == cfg.IncludePassword &&
		sc.Config.IncludeSession == cfg.IncludeSession && sc.Config.IncludeTimestamp == cfg.IncludeTimestamp && sc.Config.PasswordHash == int(cfg.PasswordHash) && sc.Config.Timestep == cfg.TimeStep
	verifAssert(ok, "description-is-the-registry-entry")
}

var _ = fasthttp.StatusOK

func verifHexField(name string, present bool) string {
	if !present {
		return ""
	}
	s := verifString(name, 2)
	for i := 0; i < 2; i++ {
		c := s[i]
		verifAssume(verifOr(verifAnd(c >= '0', c <= '9'), verifAnd(c >= 'a', c <= 'f')))
	}
	return s
}

// /ocra/generate and /ocra/validate: the library is called with the suite the request names or
// describes, and with the five hex fields decoded into the corresponding five input fields
//
//verif:harness prop=C18 name=ocra
//verif:cases quick op=0,1 raw=0,1 mask=0,2,31 
//verif:cases thorough op=0,1 raw=0,1 mask=0..31
//verif:replace github.com/ja7ad/otp.GenerateOCRA=verifStubAPI_GenerateOCRA
//verif:replace github.com/ja7ad/otp.ValidateOCRA=verifStubAPI_ValidateOCRA
//verif:opt maxpaths=4000
func verifH_C18_ocra() {
	secret := verifASCII("secret", 2)
	verifAssume(!verifBlank(secret))
	code := verifASCII("code", 2)
	verifAssume(!verifBlank(code))
	mask := verifCase("mask")
	hin := &ocraInput{CounterHex: verifHexField("hc", mask&1 != 0), ChallengeHex: verifHexField("hq", mask&2 != 0), PasswordHex: verifHexField("hp", mask&4 != 0),
		SessionInfoHex: verifHexField("hs", mask&8 != 0), TimestampHex: verifHexField("ht", mask&16 != 0)}
	var rawName string
	var sc *suiteConfig
	var want otp.Suite
	if verifCase("raw") == 1 {
		rawName = "OCRA-1:HOTP-SHA256-8:C-QA10-PSHA256-S-T1"
		s, err := otp.NewRawSuite(rawName)
		verifAssume(err == nil)
		want = s
	} else {
		sc = &suiteConfig{HashFunction: "SHA512", CodeDigits: verifInt("s.digits"), ChallengeFormat: verifInt("s.challenge"), IncludeCounter: verifBool("s.C"),
			IncludeChallenge: verifBool("s.Q"), IncludePassword: verifBool("s.P"), IncludeSession: verifBool("s.S"), IncludeTimestamp: verifBool("s.T"),
			PasswordHash: verifInt("s.ph"), Timestep: verifInt("s.ts")}
		s, err := otp.NewSuite(otp.SuiteConfig{Hash: otp.SHA512, Digits: sc.CodeDigits, Challenge: otp.ChallengeFormat(sc.ChallengeFormat), IncludeCounter: sc.IncludeCounter,
			IncludeChallenge: sc.IncludeChallenge, IncludePassword: sc.IncludePassword, IncludeSession: sc.IncludeSession, IncludeTimestamp: sc.IncludeTimestamp,
			PasswordHash: otp.PasswordHashAlgorithm(sc.PasswordHash), TimeStep: sc.Timestep})
		verifAssume(err == nil) // unusable structured suites are a 400 (status discipline: C19)
		want = s
	}
	in, ierr := otp.HexInputToOCRA(hin.CounterHex, hin.ChallengeHex, hin.PasswordHex, hin.SessionInfoHex, hin.TimestampHex)
	verifAssume(ierr == nil)
	if verifCase("op") == 0 {
		ctx := verifHTTP("POST", "/ocra/generate", "", "", ocraGenerateReq{Secret: secret, RawSuite: rawName, Suite: sc, Input: hin}, false)
		verifBeginOp()
		routers(ctx)
		verifAfterRequest()
		var resp otpGenerateResp
		got := verifHTTPResp(ctx, &resp)
		wcode, werr := otp.GenerateOCRA(secret, want, in)
		if werr != nil {
			verifAssert(verifHTTPStatus(ctx) != 200, "library-error-is-not-a-success")
			return
		}
		verifAssert(verifHTTPStatus(ctx) == 200, "success-status")
		verifAssert(got, "response-is-a-generation-result")
		verifAssert(verifStrEq(resp.Code, wcode), "code-is-the-library-result-for-the-request-fields")
		verifAssert(resp.Suite == want.String(), "suite-name-echoed")
	} else {
		ctx := verifHTTP("POST", "/ocra/validate", "", "", ocraValidateReq{Secret: secret, Code: code, RawSuite: rawName, Suite: sc, Input: hin}, false)
		verifBeginOp()
		routers(ctx)
		verifAfterRequest()
		var resp otpValidateResp
		got := verifHTTPResp(ctx, &resp)
		wok, _ := otp.ValidateOCRA(secret, code, want, in)
		verifAssert(verifHTTPStatus(ctx) == 200, "success-status")
		verifAssert(got, "response-is-a-validation-result")
		verifAssert(resp.Valid == wok, "verdict-is-the-library-verdict-for-the-request-fields")
	}
}

// the textual form of the symbolic URL the builder symbols return (net/url's real String natively)
func verifStub_URLString(u *url.URL) string { return u.Scheme + "://" + u.Host + u.Path }

// /otp/url: the URL builder of the requested type is called with exactly the request's issuer,
// account, secret, period, digits and hash (unknown spellings fall back to 6 / SHA1), and its
// textual form is returned; an unknown type is a client error.
//
//verif:harness prop=C18 name=url
//verif:cases quick kind=0,1,2 dt=0,2,5 at=0,3,4
//verif:cases thorough kind=0,1,2 dt=0..5 at=0..4
//verif:replace github.com/ja7ad/otp.GenerateTOTPURL=verifStubAPI_GenerateTOTPURL
//verif:replace github.com/ja7ad/otp.GenerateHOTPURL=verifStubAPI_GenerateHOTPURL
//verif:replace (*net/url.URL).String=verifStub_URLString
//verif:opt maxpaths=3000
func verifH_C18_url() {
	kind := []string{"totp", "hotp", "motp"}[verifCase("kind")]
	secret, issuer, account := verifASCII("secret", 2), verifASCII("issuer", 2), verifASCII("account", 2)
	dt, at := verifDigitsText[verifCase("dt")], verifAlgText[verifCase("at")]
	period := verifUint("period")
	ctx := verifHTTP("POST", "/otp/url", "", "", otpURLGenerateReq{Type: kind, Secret: secret, Issuer: issuer, AccountName: account, Period: period, Digits: dt, Algorithm: at}, false)
	verifBeginOp()
	routers(ctx)
	verifAfterRequest()
	var resp otpURLGenerateResp
	got := verifHTTPResp(ctx, &resp)
	status := verifHTTPStatus(ctx)
	verifObserve("status", status)
	if verifOr(verifOr(verifBlank(secret), verifBlank(issuer)), verifBlank(account)) {
		verifAssert(status == 400, "blank-required-field-is-a-client-error")
		return
	}
	if kind == "motp" {
		verifAssert(status == 400, "unknown-type-is-a-client-error")
		return
	}
	in := otp.URLParam{Issuer: issuer, AccountName: account, Secret: secret, Period: period, Digits: otp.DigitsFromStr(dt), Algorithm: otp.AlgorithmFromStr(at)}
	var want *url.URL
	var werr error
	if kind == "totp" {
		want, werr = otp.GenerateTOTPURL(in)
	} else {
		want, werr = otp.GenerateHOTPURL(in)
	}
	if werr != nil {
		verifAssert(status != 200, "library-error-is-not-a-success")
		return
	}
	verifAssert(status == 200, "success-status")
	verifAssert(got, "response-is-a-url")
	verifAssert(verifStrEq(resp.URL, want.String()), "url-is-the-library-result-for-the-request-fields")
}

// A request that carries both a raw suite name and a structured suite: whichever of the two the
// service uses (it reports the name with the generated code), /ocra/validate uses the same one
// for the same fields - a code generated by one endpoint validates at the matching endpoint.
//
//verif:harness prop=C18 name=ocraboth
//verif:cases quick qlen=16
//verif:cases thorough qlen=16,20
//verif:replace github.com/ja7ad/otp.GenerateOCRA=verifStubAPI_GenerateOCRA
//verif:replace github.com/ja7ad/otp.ValidateOCRA=verifStubAPI_ValidateOCRA
//verif:opt maxpaths=4000
func verifH_C18_ocraboth() {
	secret := verifASCII("secret", 2)
	verifAssume(!verifBlank(secret))
	code := verifASCII("code", 2)
	verifAssume(!verifBlank(code))
	// both suites ask for the question only, so that a model replays against the real library
	q := verifString("hq", verifCase("qlen"))
	for i := 0; i < len(q); i++ {
		c := q[i]
		verifAssume(verifOr(verifAnd(c >= '0', c <= '9'), verifAnd(c >= 'a', c <= 'f')))
	}
	hin := &ocraInput{ChallengeHex: q}
	rawName := "OCRA-1:HOTP-SHA1-6:QN08"
	rawSuite, rerr := otp.NewRawSuite(rawName)
	verifAssume(rerr == nil)
	sc := &suiteConfig{HashFunction: "SHA512", CodeDigits: 6, ChallengeFormat: 1, IncludeChallenge: true}
	structSuite, serr := otp.NewSuite(otp.SuiteConfig{Hash: otp.SHA512, Digits: 6, Challenge: otp.ChallengeFormat(1), IncludeChallenge: true})
	verifAssume(serr == nil)
	in, ierr := otp.HexInputToOCRA(hin.CounterHex, hin.ChallengeHex, hin.PasswordHex, hin.SessionInfoHex, hin.TimestampHex)
	verifAssume(ierr == nil)
	ctx := verifHTTP("POST", "/ocra/generate", "", "", ocraGenerateReq{Secret: secret, RawSuite: rawName, Suite: sc, Input: hin}, false)
	routers(ctx)
	var gresp otpGenerateResp
	if !verifHTTPResp(ctx, &gresp) || verifHTTPStatus(ctx) != 200 {
		return // the library refused the generation (function symbol's error outcome)
	}
	usedRaw := gresp.Suite == rawName
	verifAssert(usedRaw || gresp.Suite == structSuite.String(), "generation-uses-one-of-the-two-suites")
	used := structSuite
	if usedRaw {
		used = rawSuite
	}
	wcode, werr := otp.GenerateOCRA(secret, used, in)
	verifAssert(werr == nil && verifStrEq(gresp.Code, wcode), "code-is-the-library-result-for-the-reported-suite")
	ctx2 := verifHTTP("POST", "/ocra/validate", "", "", ocraValidateReq{Secret: secret, Code: code, RawSuite: rawName, Suite: sc, Input: hin}, false)
	routers(ctx2)
	var vresp otpValidateResp
	got := verifHTTPResp(ctx2, &vresp)
	wok, _ := otp.ValidateOCRA(secret, code, used, in)
	verifObserve("valid", vresp.Valid)
	verifAssert(verifHTTPStatus(ctx2) == 200 && got, "validation-answers")
	verifAssert(vresp.Valid == wok, "validation-uses-the-suite-generation-used")
	if verifNative() {
		// natively: the code the service generated validates at the matching endpoint
		ctx3 := verifHTTP("POST", "/ocra/validate", "", "", ocraValidateReq{Secret: secret, Code: gresp.Code, RawSuite: rawName, Suite: sc, Input: hin}, false)
		routers(ctx3)
		var v3 otpValidateResp
		verifAssert(verifHTTPResp(ctx3, &v3) && v3.Valid, "validation-uses-the-suite-generation-used")
	}
}
