package api

import (
	"time"

	"github.com/ja7ad/otp"
)

// Native twin of the frame rule ("a request writes no state that a later request reads"): after
// the request under test, well-formed probe requests that omit every optional field are sent to
// the same router and their answers compared with the library's result for the documented
// defaults (RFC 4226 / 6238 vectors for the generation endpoints). Run natively only: in the
// symbolic run the frame rule itself is the obligation, and this sequence is the replay that
// shows a model of its violation against the real code.

const verifProbeSecret = "GEZDGNBVGY3TQOJQGEZDGNBVGY3TQOJQ" // "12345678901234567890"

func verifProbeGenerate(path, body string) (string, bool) {
	ctx := verifRawHTTP("POST", path, body)
	routers(ctx)
	var resp otpGenerateResp
	ok := verifHTTPResp(ctx, &resp)
	return resp.Code, ok && verifHTTPStatus(ctx) == 200
}

func verifProbeValidate(path, body string) (bool, bool) {
	ctx := verifRawHTTP("POST", path, body)
	routers(ctx)
	var resp otpValidateResp
	ok := verifHTTPResp(ctx, &resp)
	return resp.Valid, ok && verifHTTPStatus(ctx) == 200
}

func verifNativeProbes() {
	s := verifProbeSecret
	def := func() *otp.Param { return &otp.Param{Digits: otp.SixDigits, Algorithm: otp.SHA1, Period: 30} }
	// RFC 6238 (SHA-1 key, T = 59 s, step 1) and RFC 4226 (counters 0 and 1), six digits
	code, ok := verifProbeGenerate("/totp/generate", `{"secret":"`+s+`","timestamp":59}`)
	verifAssert(ok && code == "287082", "probe-totp-generate-defaults")
	code, ok = verifProbeGenerate("/totp/generate", `{"secret":"`+s+`","timestamp":1111111109}`)
	verifAssert(ok && code == "081804", "probe-totp-generate-defaults")
	code, ok = verifProbeGenerate("/hotp/generate", `{"secret":"`+s+`"}`)
	verifAssert(ok && code == "755224", "probe-hotp-generate-defaults")
	code, ok = verifProbeGenerate("/hotp/generate", `{"secret":"`+s+`","counter":1}`)
	verifAssert(ok && code == "287082", "probe-hotp-generate-defaults")
	// validation with every optional field omitted: exact step only (skew 0), 30 s, SHA-1, six digits
	for _, ts := range []int64{59, 1111111109, 2000000000} {
		at := time.Unix(ts, 0)
		for k := int64(-2); k <= 2; k++ {
			tt := ts + 30*k
			if tt <= 0 {
				continue
			}
			c, err := otp.GenerateTOTP(s, time.Unix(tt, 0), def())
			if err != nil {
				continue
			}
			want, _ := otp.ValidateTOTP(s, c, at, def())
			got, ok := verifProbeValidate("/totp/validate", `{"secret":"`+s+`","code":"`+c+`","timestamp":`+verifItoa(ts)+`}`)
			verifAssert(ok && got == want && want == (k == 0), "probe-totp-validate-defaults")
		}
	}
	for _, ctr := range []uint64{0, 1, 5} {
		for k := uint64(0); k <= 3; k++ {
			c, err := otp.GenerateHOTP(s, ctr+k, def())
			if err != nil {
				continue
			}
			body := `{"secret":"` + s + `","code":"` + c + `","counter":` + verifItoa(int64(ctr)) + `}`
			if ctr == 0 {
				body = `{"secret":"` + s + `","code":"` + c + `"}`
			}
			got, ok := verifProbeValidate("/hotp/validate", body)
			verifAssert(ok && got == (k == 0), "probe-hotp-validate-defaults")
		}
	}
	// OCRA with a raw suite: the library's code for the same suite and question
	suite, err := otp.NewRawSuite("OCRA-1:HOTP-SHA1-6:QN08")
	if err == nil {
		in, ierr := otp.HexInputToOCRA("", "3132333435363738", "", "", "")
		if ierr == nil {
			want, werr := otp.GenerateOCRA(s, suite, in)
			code, ok = verifProbeGenerate("/ocra/generate", `{"secret":"`+s+`","raw_suite":"OCRA-1:HOTP-SHA1-6:QN08","input":{"challenge_hex":"3132333435363738"}}`)
			verifAssert(werr == nil && ok && code == want, "probe-ocra-generate")
			got, ok := verifProbeValidate("/ocra/validate", `{"secret":"`+s+`","code":"`+want+`","raw_suite":"OCRA-1:HOTP-SHA1-6:QN08","input":{"challenge_hex":"3132333435363738"}}`)
			verifAssert(ok && got, "probe-ocra-validate")
		}
	}
}

func verifItoa(v int64) string {
	if v == 0 {
		return "0"
	}
	s := ""
	for v > 0 {
		s = string(rune('0'+v%10)) + s
		v /= 10
	}
	return s
}
