package api

// Native twin of rt_sym.go: real fasthttp.RequestCtx values, real JSON.

import (
	"encoding/json"
	"fmt"

	"github.com/valyala/fasthttp"
)

type verifJob struct {
	ID      string            `json:"id"`
	Harness string            `json:"harness"`
	Cases   map[string]int64  `json:"cases"`
	Vars    map[string]uint64 `json:"vars"`
	Digests [][]int           `json:"digests"`
}

type verifJobResult struct {
	ID           string            `json:"id"`
	Failed       []string          `json:"failed"`
	AssumeFailed bool              `json:"assume_failed"`
	Panic        string            `json:"panic"`
	Observes     map[string]string `json:"observes"`
	Asserts      int               `json:"asserts"`
	AssumeSite   string            `json:"assume_site"`
	Timeout      bool              `json:"timeout"`
}

var (
	verifCur *verifJob
	verifRes *verifJobResult
	verifSeq map[string]int
)

type verifAssumeFailed struct{}

func verifRunJob(j *verifJob, table map[string]func()) (res *verifJobResult) {
	verifCur = j
	verifRes = &verifJobResult{ID: j.ID, Observes: map[string]string{}}
	res = verifRes
	verifSeq = map[string]int{}
	f := table[j.Harness]
	if f == nil {
		res.Panic = "no such harness: " + j.Harness
		return
	}
	defer func() {
		if r := recover(); r != nil {
			if _, ok := r.(verifAssumeFailed); ok {
				res.AssumeFailed = true
				return
			}
			res.Panic = fmt.Sprint(r)
		}
	}()
	f()
	return
}

func verifNext(base string) uint64 {
	verifSeq[base]++
	name := base
	if verifSeq[base] > 1 {
		name = fmt.Sprintf("%s#%d", base, verifSeq[base])
	}
	return verifCur.Vars[name]
}

func verifU8(name string) uint8         { return uint8(verifNext(name)) }
func verifU64(name string) uint64       { return verifNext(name) }
func verifUint(name string) uint        { return uint(verifNext(name)) }
func verifInt(name string) int          { return int(int64(verifNext(name))) }
func verifI64(name string) int64        { return int64(verifNext(name)) }
func verifBool(name string) bool        { return verifNext(name) != 0 }
func verifCase(name string) int         { return int(verifCur.Cases[name]) }
func verifSymbolic() bool               { return false }
func verifSkipCase()                    { panic(verifAssumeFailed{}) }
func verifTraceOn(on bool)              {}
func verifTraceLeaks(prefix string) int { return 0 }
func verifTraceClass(class string)      {}
func verifFrameViolations() int         { return 0 }
func verifBeginOp()                     {}
func verifAnd(a, b bool) bool           { return a && b }
func verifOr(a, b bool) bool            { return a || b }
func verifImplies(a, b bool) bool       { return !a || b }
func verifStrEq(a, b string) bool       { return a == b }

func verifString(name string, n int) string {
	b := make([]byte, n)
	for i := range b {
		b[i] = byte(verifNext(fmt.Sprintf("%s[%d]", name, i)))
	}
	return string(b)
}

func verifAssume(c bool) {
	if !c {
		panic(verifAssumeFailed{})
	}
}

func verifAssert(c bool, name string) {
	verifRes.Asserts++
	if !c {
		verifRes.Failed = append(verifRes.Failed, name)
	}
}

func verifPanics(f func()) (p bool) {
	defer func() {
		if r := recover(); r != nil {
			if _, ok := r.(verifAssumeFailed); ok {
				panic(r)
			}
			p = true
		}
	}()
	f()
	return false
}

func verifObserve(name string, v any) {
	switch x := v.(type) {
	case string:
		s := "str["
		for i := 0; i < len(x); i++ {
			s += fmt.Sprintf("%d,", x[i])
		}
		verifRes.Observes[name] = s + "]"
	case int:
		verifRes.Observes[name] = fmt.Sprint(uint64(x))
	default:
		verifRes.Observes[name] = fmt.Sprint(x)
	}
}

// verifHTTP builds a real request context: method, path, one optional query argument, and a
// JSON body marshalled from req (or text that does not decode when failDecode is set).
func verifHTTP(method, path, queryKey, queryVal string, req any, failDecode bool) *fasthttp.RequestCtx {
	ctx := &fasthttp.RequestCtx{}
	ctx.Request.Header.SetMethod(method)
	uri := path
	if queryKey != "" {
		args := fasthttp.AcquireArgs()
		args.Set(queryKey, queryVal)
		uri += "?" + args.String()
	}
	ctx.Request.SetRequestURI(uri)
	if failDecode {
		ctx.Request.SetBody([]byte(`{"secret": 12, "counter": "x"`))
	} else if req != nil {
		b, err := json.Marshal(req)
		if err != nil {
			panic(verifAssumeFailed{}) // request value not expressible as JSON (e.g. invalid UTF-8): outside the model
		}
		ctx.Request.SetBody(b)
	}
	return ctx
}

func verifRawHTTP(method, path, body string) *fasthttp.RequestCtx {
	ctx := &fasthttp.RequestCtx{}
	ctx.Request.Header.SetMethod(method)
	ctx.Request.SetRequestURI(path)
	if body != "" {
		ctx.Request.SetBody([]byte(body))
	}
	return ctx
}

func verifHTTPStatus(ctx *fasthttp.RequestCtx) int { return ctx.Response.StatusCode() }

// the number of times status / body were set cannot be observed on a real context
func verifHTTPSets(ctx *fasthttp.RequestCtx) (int, int) {
	b := 0
	if len(ctx.Response.Body()) > 0 {
		b = 1
	}
	return 1, b
}

func verifHTTPResp(ctx *fasthttp.RequestCtx, out any) bool {
	dec := json.NewDecoder(bytesReader(ctx.Response.Body()))
	dec.DisallowUnknownFields()
	return dec.Decode(out) == nil
}

type verifBytesR struct {
	b []byte
	i int
}

func (r *verifBytesR) Read(p []byte) (int, error) {
	if r.i >= len(r.b) {
		return 0, fmt.Errorf("EOF")
	}
	n := copy(p, r.b[r.i:])
	r.i += n
	return n, nil
}

func bytesReader(b []byte) *verifBytesR { return &verifBytesR{b: b} }

func verifPrefer(c bool) {}

// true only in the compiled replay (the executor answers false in its symbolic and concrete modes)
func verifNative() bool { return true }
