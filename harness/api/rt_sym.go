package api

import "github.com/valyala/fasthttp"

// Symbolic runtime (gosym intrinsics) of the REST-layer harnesses.

func verifU8(name string) uint8
func verifU64(name string) uint64
func verifUint(name string) uint
func verifInt(name string) int
func verifI64(name string) int64
func verifBool(name string) bool
func verifString(name string, n int) string
func verifCase(name string) int
func verifAssume(c bool)
func verifAssert(c bool, name string)
func verifObserve(name string, v any)
func verifAnd(a, b bool) bool
func verifOr(a, b bool) bool
func verifImplies(a, b bool) bool
func verifStrEq(a, b string) bool
func verifPanics(f func()) bool
func verifSymbolic() bool
func verifSkipCase()
func verifTraceOn(on bool)
func verifTraceLeaks(prefix string) int
func verifTraceClass(class string)
func verifFrameViolations() int
func verifBeginOp()
func verifHTTP(method, path, queryKey, queryVal string, req any, failDecode bool) *fasthttp.RequestCtx
func verifHTTPStatus(ctx *fasthttp.RequestCtx) int
func verifHTTPSets(ctx *fasthttp.RequestCtx) (int, int)
func verifHTTPResp(ctx *fasthttp.RequestCtx, out any) bool
func verifPrefer(c bool)
func verifNative() bool
func verifRawHTTP(method, path, body string) *fasthttp.RequestCtx
