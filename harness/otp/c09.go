package otp

// C09 — submitted codes are compared with the expected code in constant time.
// Leakage model: control flow (branch decisions), and the operands of variable-time
// comparison primitives (Go string ==/!=/<, bytes.Equal, map lookups keyed by strings...).
// Not modelled: caches, micro-architecture, the allocator.

//verif:harness prop=C09 name=rfc4226
//verif:cases quick which=0,1 digits=6,10 skew=0
//verif:cases thorough which=0,1 digits=1,6,8,9,10 skew=0,1
//verif:replace github.com/ja7ad/otp.DecodeSecret=verifStub_DecodeSecret
//verif:opt hmac=fresh confirm=analysis attacker=code maxpaths=6000 stop_on_violation=1
func verifH_C09_rfc4226() {
	d := verifCase("digits")
	s := verifCase("skew")
	// the real digit formatter multiplies its paths per derivation: windows 0 (quick) and 1 here,
	// larger windows with the derivation replaced by its contract in harness rfc4226window
	alg := Algorithm(verifU8("alg"))
	verifAssume(alg <= 2)
	key := verifBytes("key", 10)
	secret := verifSecretFor(key, false)
	code := verifString("code", d) // right length, arbitrary content
	p := &Param{Digits: Digits(d), Algorithm: alg, Skew: uint(s), Period: 30}
	counter := verifU64("counter")
	verifAssume(verifAnd(counter >= 16, counter < 1<<62))
	t := verifTimeIn("t", 10)
	verifAssume(verifAnd(t.Unix() >= 1000, t.Unix() < 1<<40))
	var ok bool
	verifTraceOn(true)
	if verifCase("which") == 0 {
		ok, _ = ValidateHOTP(secret, code, counter, p)
	} else {
		ok, _ = ValidateTOTP(secret, code, t, p)
	}
	verifTraceOn(false)
	verifObserve("ok", ok)
	if !ok {
		verifTraceClass("rejected-right-length")
	}
	verifAssert(verifTraceLeaks("code") == 0, "no-variable-time-comparison-of-submitted-code-with-secret-derived-data")
}

// the same with the derivation replaced by its contract (windows up to 10 without path blow-up)
//
//verif:harness prop=C09 name=rfc4226window
//verif:cases quick which=0,1 digits=6 skew=2,10
//verif:cases thorough which=0,1 digits=6,10 skew=0,1,2,10
//verif:replace github.com/ja7ad/otp.DecodeSecret=verifStub_DecodeSecret
//verif:replace github.com/ja7ad/otp.deriveRFC4226=verifStub_derive
//verif:opt confirm=analysis attacker=code maxpaths=6000 stop_on_violation=1
func verifH_C09_rfc4226window() {
	d := verifCase("digits")
	s := verifCase("skew")
	alg := Algorithm(verifU8("alg"))
	verifAssume(alg <= 2)
	key := verifBytes("key", 10)
	secret := verifSecretFor(key, false)
	code := verifString("code", d)
	p := &Param{Digits: Digits(d), Algorithm: alg, Skew: uint(s), Period: 30}
	counter := verifU64("counter")
	verifAssume(verifAnd(counter >= 16, counter < 1<<62))
	t := verifTimeIn("t", 10)
	verifAssume(verifAnd(t.Unix() >= 1000, t.Unix() < 1<<40))
	var ok bool
	verifTraceOn(true)
	if verifCase("which") == 0 {
		ok, _ = ValidateHOTP(secret, code, counter, p)
	} else {
		ok, _ = ValidateTOTP(secret, code, t, p)
	}
	verifTraceOn(false)
	verifObserve("ok", ok)
	if !ok {
		verifTraceClass("rejected-right-length")
	}
	verifAssert(verifTraceLeaks("code") == 0, "no-variable-time-comparison-of-submitted-code-with-secret-derived-data")
}

//verif:harness prop=C09 name=ocra
//verif:cases quick flags=2,31 digits=6
//verif:cases thorough flags=2,3,6,10,18,31 digits=4,6,10
//verif:replace github.com/ja7ad/otp.DecodeSecret=verifStub_DecodeSecret
//verif:opt hmac=fresh confirm=analysis attacker=code maxpaths=6000 stop_on_violation=1
func verifH_C09_ocra() {
	d := verifCase("digits")
	cfg := verifFlagsConfig(verifCase("flags"), 20, 0, d, 1, 1)
	in := OCRAInput{Counter: verifBytes("in.C", 8), Challenge: verifBytes("in.Q", 16), Password: verifBytes("in.P", 20), SessionInfo: verifBytes("in.S", 16), Timestamp: verifBytes("in.T", 8)}
	key := verifBytes("key", 10)
	secret := verifSecretFor(key, false)
	code := verifString("code", d)
	verifTraceOn(true)
	ok, _ := ValidateOCRA(secret, code, cfg, in)
	verifTraceOn(false)
	verifObserve("ok", ok)
	if !ok {
		verifTraceClass("rejected-right-length")
	}
	verifAssert(verifTraceLeaks("code") == 0, "no-variable-time-comparison-of-submitted-code-with-secret-derived-data")
}
