//verif:unless rfc6287BufPool

package otp

func verifPoisonOCRAPool(n int, pat byte) {}
