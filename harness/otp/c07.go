package otp

// C07 — every spelling of a base32 secret decodes to exactly the same key bytes.

func verifIsWS(c byte) bool {
	return verifOr(verifOr(verifOr(c == ' ', c == '\t'), verifOr(c == '\n', c == '\r')), verifOr(c == '\v', c == '\f'))
}

func verifSpelling(b []byte, padk, wsl, wsr int) string {
	e := []byte(verifEnc32(b)) // upper case, unpadded (independent spec encoder)
	// arbitrary mixture of upper and lower case letters
	for i := range e {
		lower := verifBool("lower")
		isLetter := e[i] >= 'A'
		e[i] = verifIteU8(verifAnd(lower, isLetter), e[i]+32, e[i])
	}
	for i := 0; i < padk; i++ {
		e = append(e, '=')
	}
	pre := verifBytes("wsl", wsl)
	for _, c := range pre {
		verifAssume(verifIsWS(c))
	}
	suf := verifBytes("wsr", wsr)
	for _, c := range suf {
		verifAssume(verifIsWS(c))
	}
	return string(pre) + string(e) + string(suf)
}

// canonical number of '=' for n bytes
func verifCanonPad(n int) int {
	return []int{0, 6, 4, 3, 1}[n%5]
}

//verif:harness prop=C07 name=roundtrip
//verif:cases quick n=0..10 pad=0,1,2 wsl=0,1 wsr=0,2
//verif:cases thorough n=0..16,20,32 pad=0,1,2 wsl=0,1 wsr=0,2
//verif:opt unwind=2000 maxpaths=400
func verifH_C07_roundtrip() {
	n := verifCase("n")
	b := verifBytes("b", n)
	canon := verifCanonPad(n)
	padk := 0
	switch verifCase("pad") {
	case 1:
		padk = canon
	case 2: // some partial amount of padding, 1..canon-1
		if canon < 2 {
			padk = canon
		} else {
			padk = verifInt("padk")
			verifAssume(verifAnd(padk >= 1, padk < canon))
		}
	}
	text := verifSpelling(b, padk, verifCase("wsl"), verifCase("wsr"))
	got, err := DecodeSecret(text)
	verifObserve("err", err == nil)
	verifObserve("got", got)
	verifAssert(err == nil, "decodes")
	verifAssertBytesEq(got, b, "decoded-bytes-are-the-key")
}

// characters outside the alphabet, impossible lengths, padding in the middle: rejected
//
//verif:harness prop=C07 name=reject
//verif:cases quick len=1..8 class=0,1,2
//verif:cases thorough len=1..16 class=0,1,2
//verif:opt unwind=2000 maxpaths=3000
func verifH_C07_reject() {
	L := verifCase("len")
	t := verifBytes("t", L)
	inAlpha := func(c byte) bool {
		up := verifOr(verifAnd(c >= 'A', c <= 'Z'), verifAnd(c >= 'a', c <= 'z'))
		return verifOr(up, verifAnd(c >= '2', c <= '7'))
	}
	// the text is ASCII (Unicode case mapping / Unicode white space are outside the modelled contract of
	// strings.ToUpper / strings.TrimSpace) and has no CR/LF (Go's decoder strips them - documented std behaviour)
	for _, c := range t {
		verifAssume(verifAnd(c < 0x80, verifAnd(c != '\r', c != '\n')))
	}
	switch verifCase("class") {
	case 0: // some character outside A-Z a-z 2-7 = and white space
		pos := verifInt("pos")
		verifAssume(verifAnd(pos >= 0, pos < L))
		bad := false
		for i, c := range t {
			bad = verifOr(bad, verifAnd(i == pos, verifAnd(!inAlpha(c), verifAnd(c != '=', !verifIsWS(c)))))
		}
		verifAssume(bad)
	case 1: // alphabet only, impossible length (1, 3, 6 mod 8)
		if L%8 != 1 && L%8 != 3 && L%8 != 6 {
			verifSkipCase()
		}
		for _, c := range t {
			verifAssume(inAlpha(c))
		}
	case 2: // '=' followed later by an alphabet character
		if L < 2 {
			verifSkipCase()
		}
		pos := verifInt("pos")
		verifAssume(verifAnd(pos >= 0, pos < L-1))
		seen := false
		for i, c := range t {
			verifAssume(verifOr(inAlpha(c), c == '='))
			verifAssume(verifImplies(i == pos, c == '='))
			verifAssume(verifImplies(i == L-1, inAlpha(c)))
			_ = seen
		}
	}
	got, err := DecodeSecret(string(t))
	verifObserve("err", err == nil)
	verifAssert(err != nil, "malformed-text-rejected")
	_ = got
}

// A decoded key is a value: unchanged by a later decode, sharing no memory with package state.
//
//verif:harness prop=C07 name=value
//verif:cases quick n=5,10
//verif:cases thorough n=1,5,10,20,50
//verif:opt unwind=2000 maxpaths=400
func verifH_C07_value() {
	n := verifCase("n")
	a, b := verifBytes("a", n), verifBytes("b", n)
	verifPrefer(a[0] != b[0])
	ga, ea := DecodeSecret(verifEnc32(a))
	gb, eb := DecodeSecret(verifEnc32(b))
	verifObserve("gb", gb)
	verifAssert(ea == nil && eb == nil, "decodes")
	if ea != nil || eb != nil {
		return
	}
	verifAssertBytesEq(ga, a, "first-key-unchanged-by-a-later-decode")
	verifAssertBytesEq(gb, b, "second-key-is-its-own")
	if verifSymbolic() {
		verifAssert(verifResultOwned(ga) && verifResultOwned(gb), "decoded-key-shares-no-memory-with-pools-or-package-state")
	}
}
