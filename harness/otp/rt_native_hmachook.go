//verif:requires hmacPools

package otp

import "hash"

// the package's own HMAC constructor table is the hook through which the replay records HMAC
// calls and injects the digests of a model
func verifInstall() {
	if verifInstalled {
		return
	}
	verifInstalled = true
	for i := range hmacPools {
		i := i
		verifOrigNew[i] = hmacPools[i].new
		hmacPools[i].new = func(key []byte) hash.Hash {
			// which algorithm the *real* constructor of this row yields is determined by its digest size
			real := verifOrigNew[i](key)
			alg := map[int]int{20: 0, 32: 1, 64: 2}[real.Size()]
			r := &verifHmacRec{alg: alg, key: append([]byte{}, key...), inner: real}
			seq := len(verifHmacs)
			verifHmacs = append(verifHmacs, r)
			if verifUseDigests && verifCur != nil && seq < len(verifCur.Digests) && len(verifCur.Digests[seq]) > 0 {
				d := make([]byte, len(verifCur.Digests[seq]))
				for j, x := range verifCur.Digests[seq] {
					d[j] = byte(x)
				}
				r.digest = d
			}
			return r
		}
	}
}
