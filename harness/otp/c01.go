package otp

// C01 — HOTP codes equal the RFC 4226 value.

func verifPow10(d int) uint64 {
	r := uint64(1)
	for i := 0; i < d; i++ {
		r *= 10
	}
	return r
}

// verifSpecDT is RFC 4226 section 5.3 (dynamic truncation) on a 32-bit word.
func verifSpecDT(D []byte) uint32 {
	o := int(D[len(D)-1] & 0x0f)
	return (uint32(D[o])&0x7f)<<24 | uint32(D[o+1])<<16 | uint32(D[o+2])<<8 | uint32(D[o+3])
}

// verifIsRendering asserts that s is the decimal rendering of v, zero padded to d
// characters: length d, every character a digit, positional value equal to v.
func verifIsRendering(s string, v uint64, d int, tag string) {
	verifAssert(len(s) == d, tag+"/length")
	if len(s) != d {
		return
	}
	sum := uint64(0)
	alld := true
	for j := 0; j < d; j++ {
		ch := s[j]
		alld = verifAnd(alld, verifAnd(ch >= '0', ch <= '9'))
		sum = sum*10 + uint64(ch-'0')
	}
	verifAssert(alld, tag+"/all-digits")
	verifAssert(sum == v, tag+"/value")
}

//verif:harness prop=C01 name=derive
//verif:cases quick digits=1,6,8,9,10 alg=0..2 keylen=20
//verif:cases thorough digits=1..10 alg=0..2 keylen=20,65
func verifH_C01_derive() { verifC01Derive(verifCase("digits"), verifCase("alg"), verifCase("keylen")) }

// keys of other lengths (empty, one byte, exactly / one more than the HMAC block size, two blocks)
//
//verif:harness prop=C01 name=derivekeys
//verif:cases quick digits=6 alg=0,2 keylen=0,1,64,65,129
//verif:cases thorough digits=6 alg=0..2 keylen=0,1,63,64,65,128,129,200
func verifH_C01_derivekeys() {
	verifC01Derive(verifCase("digits"), verifCase("alg"), verifCase("keylen"))
}

func verifC01Derive(digits, alg, keylen int) {
	verifUseModelDigests()
	counter := verifU64("counter")
	key := verifBytes("key", keylen)
	keyCopy := append([]byte{}, key...)
	verifProtect(key)
	verifBeginOp()
	code, err := deriveRFC4226(key, counter, digits, Algorithm(alg))
	verifEndOp()
	verifAssert(err == nil, "no-error")
	verifAssert(verifHMACCount() == 1, "one-hmac")
	if verifHMACCount() != 1 {
		return
	}
	verifAssert(verifHMACAlg(0) == alg, "hash-of-param")
	verifAssert(verifHMACSums(0) == 1, "one-sum")
	msg := verifHMACMsg(0)
	verifAssert(len(msg) == 8, "message-8-bytes")
	if len(msg) == 8 {
		ok := true
		for i := 0; i < 8; i++ {
			ok = verifAnd(ok, msg[i] == byte(counter>>(56-8*uint(i))))
		}
		verifAssert(ok, "message-big-endian-counter")
	}
	verifAssert(verifKeyEquiv(verifHMACKey(0), keyCopy, alg), "key-is-secret")
	verifAssert(verifBytesEq(key, keyCopy), "secret-unmodified")
	verifAssert(verifFrameViolations() == 0, "writes-only-own-memory")
	D := verifHMACDigest(0)
	v := uint64(verifSpecDT(D)) % verifPow10(digits)
	verifObserve("code", code)
	verifIsRendering(code, v, digits, "code")
}

// Unsupported code lengths / hashes through the public API: an error, never a code, never a panic.
//
//verif:harness prop=C01 name=refuse
//verif:cases quick nilparam=0
func verifH_C01_refuse() {
	d := verifU8("digits")
	a := verifU8("alg")
	counter := verifU64("counter")
	verifAssume(verifOr(verifOr(d < 1, d > 10), a > 2))
	p := &Param{Digits: Digits(d), Algorithm: Algorithm(a), Period: verifUint("period"), Skew: verifUint("skew")}
	var code string
	var err error
	panicked := verifPanics(func() { code, err = GenerateHOTP("JBSWY3DPEHPK3PXP", counter, p) })
	verifObserve("panicked", panicked)
	verifAssert(!panicked, "no-panic")
	if panicked {
		return
	}
	verifObserve("code", code)
	verifAssert(err != nil, "error-reported")
	verifAssert(code == "", "no-code")
}

// GenerateHOTP = deriveRFC4226(DecodeSecret(secret), counter, param.Digits, param.Algorithm),
// nil param = {6, SHA1}.  deriveRFC4226 is abstracted by its contract here.
//
//verif:harness prop=C01 name=api
//verif:cases quick keylen=0,1,10,20 nilparam=0,1
//verif:cases thorough keylen=0,1,5,10,16,20,32 nilparam=0,1
//verif:replace github.com/ja7ad/otp.deriveRFC4226=verifStub_derive
//verif:opt unwind=600
func verifH_C01_api() {
	key := verifBytes("key", verifCase("keylen"))
	secret := verifEnc32(key)
	counter := verifU64("counter")
	d := verifU8("digits")
	a := verifU8("alg")
	var p *Param
	wd, wa := 6, Algorithm(0)
	if verifCase("nilparam") == 0 {
		p = &Param{Digits: Digits(d), Algorithm: Algorithm(a), Period: verifUint("period"), Skew: verifUint("skew")}
		wd, wa = int(d), Algorithm(a)
	}
	defBefore := *DefaultHOTPParam
	verifSeenKeys = nil
	code, err := GenerateHOTP(secret, counter, p)
	if verifSymbolic() {
		// the key handed to the derivation is the decoded secret (lemma; makes the next step cheap)
		verifAssert(len(verifSeenKeys) == 1, "one-derivation")
		if len(verifSeenKeys) == 1 {
			verifAssertBytesEq(verifSeenKeys[0], key, "derivation-key-is-decoded-secret")
		}
	}
	wcode, werr := deriveRFC4226(key, counter, wd, wa)
	verifObserve("code", code)
	verifObserve("err", err == nil)
	verifAssert((err == nil) == (werr == nil), "error-iff-derive-error")
	verifAssert(verifStrEq(code, wcode), "code-is-derive-of-decoded-secret")
	verifAssert(*DefaultHOTPParam == defBefore, "default-param-unchanged")
}

// A returned code is a value: it shares no memory with pooled buffers or package state and is
// unchanged by a later derivation (which reuses whatever scratch memory the implementation keeps).
//
//verif:harness prop=C01 name=value
//verif:cases quick digits=6,8,9 alg=0,2
//verif:cases thorough digits=1..10 alg=0..2
//verif:opt hmac=fresh
func verifH_C01_value() {
	digits, alg := verifCase("digits"), verifCase("alg")
	k1, k2 := verifBytes("a.key", 10), verifBytes("b.key", 10)
	c1, c2 := verifU64("a.counter"), verifU64("b.counter")
	verifPrefer(c1 != c2)
	verifPrefer(k1[0] != k2[0])
	code1, err1 := deriveRFC4226(k1, c1, digits, Algorithm(alg))
	snap := string(append([]byte{}, code1...))
	code2, err2 := deriveRFC4226(k2, c2, digits, Algorithm(alg))
	verifObserve("code2", code2)
	verifAssert(err1 == nil && err2 == nil, "no-error")
	verifAssert(verifStrEq(code1, snap), "code-unchanged-by-a-later-derivation")
	if verifSymbolic() {
		verifAssert(verifResultOwned(code1) && verifResultOwned(code2), "code-shares-no-memory-with-pools-or-package-state")
	}
}
