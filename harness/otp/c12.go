package otp

import "net/url"

// C12 — caller data and package defaults are never modified.
// C11 (reduced) — per-call write frame, pool ownership, non-interference with pool
// content and history, no aliasing of results; see DESIGN.md for the reduction to schedules.

func verifCopyInput(in OCRAInput) OCRAInput {
	cp := func(b []byte) []byte {
		if b == nil {
			return nil
		}
		full := b[:cap(b)]
		return append([]byte{}, full...)
	}
	return OCRAInput{Counter: cp(in.Counter), Challenge: cp(in.Challenge), Password: cp(in.Password), SessionInfo: cp(in.SessionInfo), Timestamp: cp(in.Timestamp)}
}

// every byte of the backing arrays (including the spare capacity behind len) is unchanged
func verifInputUnchanged(in, before OCRAInput) bool {
	eq := func(b, c []byte) bool {
		if b == nil {
			return c == nil
		}
		return verifBytesEq(b[:cap(b)], c)
	}
	r := eq(in.Counter, before.Counter)
	r = verifAnd(r, eq(in.Challenge, before.Challenge))
	r = verifAnd(r, eq(in.Password, before.Password))
	r = verifAnd(r, eq(in.SessionInfo, before.SessionInfo))
	r = verifAnd(r, eq(in.Timestamp, before.Timestamp))
	return r
}

func verifRegistrySnapshot() []SuiteConfig {
	names := ListSuites()
	for i := 1; i < len(names); i++ {
		for j := i; j > 0 && names[j] < names[j-1]; j-- {
			names[j], names[j-1] = names[j-1], names[j]
		}
	}
	var out []SuiteConfig
	for _, n := range names {
		out = append(out, SuiteConfigFromRaws(n))
	}
	return out
}

func verifRegistryEqual(a, b []SuiteConfig) bool {
	if len(a) != len(b) {
		return false
	}
	for i := range a {
		if a[i] != b[i] {
			return false
		}
	}
	return true
}

//verif:harness prop=C12 name=ocra
//verif:cases quick flags=0,2,11,31 op=0,1 wrap=0,1
//verif:cases thorough flags=0..31 op=0,1 wrap=0,1
//verif:replace github.com/ja7ad/otp.DecodeSecret=verifStub_DecodeSecret
//verif:opt hmac=fresh maxpaths=3000
func verifH_C12_ocra() {
	flags := verifCase("flags")
	cfg := verifFlagsConfig(flags, 20, 0, 6, 1, 1)
	in := verifSymInput(0) // len 0..140 over 144-byte arrays: spare capacity with arbitrary (canary) content
	before := verifCopyInput(in)
	cfgBefore := cfg
	regBefore := verifRegistrySnapshot()
	key := verifBytes("key", 10)
	secret := verifSecretFor(key, false)
	var s Suite = cfg
	if verifCase("wrap") == 1 {
		s = RawSuite{SuiteConfig: cfg}
	}
	verifProtect(in)
	verifProtect(key)
	verifPoolAdversary(true)
	verifBeginOp()
	var code string
	var err error
	if verifCase("op") == 0 {
		code, err = GenerateOCRA(secret, s, in)
	} else {
		_, err = ValidateOCRA(secret, verifString("code", 6), s, in)
	}
	verifEndOp()
	verifObserve("errnil", err == nil)
	// observable effects first (their counterexamples replay natively), then the engine's write frame
	verifAssert(verifInputUnchanged(in, before), "input-fields-and-spare-capacity-unchanged")
	verifAssert(s.Config() == cfgBefore, "suite-configuration-unchanged")
	verifAssert(verifRegistryEqual(verifRegistrySnapshot(), regBefore), "suite-registry-unchanged")
	verifAssert(verifFrameViolations() == 0, "writes-only-call-private-or-owned-pool-memory")
	if verifSymbolic() {
		verifAssert(verifResultOwned(code), "result-shares-no-memory-with-arguments-pools-or-globals")
		verifAssert(!verifDependsOn(code, "pool_"), "result-independent-of-pool-content")
	}
}

// Param structs, default parameter sets: not modified by the RFC 4226 / 6238 entry points
//
//verif:harness prop=C12 name=params_gen
//verif:cases quick op=0,2 nilparam=0,1
//verif:replace github.com/ja7ad/otp.DecodeSecret=verifStub_DecodeSecret
//verif:opt hmac=fresh maxpaths=4000
func verifH_C12_params_gen() { verifC12Params() }

// validation entry points: the derivation (whose own frame is decided by params_gen on the same
// function) is replaced by its contract to keep the window loop from multiplying its paths
//
//verif:harness prop=C12 name=params_val
//verif:cases quick op=1,3 nilparam=0,1
//verif:replace github.com/ja7ad/otp.DecodeSecret=verifStub_DecodeSecret
//verif:replace github.com/ja7ad/otp.deriveRFC4226=verifStub_derive
//verif:opt hmac=fresh maxpaths=4000
func verifH_C12_params_val() { verifC12Params() }

func verifC12Params() {
	key := verifBytes("key", 10)
	secret := verifSecretFor(key, false)
	var p *Param
	var pBefore Param
	if verifCase("nilparam") == 0 {
		d := verifU8("digits")
		verifAssume(verifOr(d == 6, d == 0)) // one supported, one unsupported length
		p = &Param{Digits: Digits(d), Algorithm: Algorithm(verifU8("alg")), Period: verifUint("period"), Skew: verifUint("skew")}
		verifAssume(verifOr(p.Skew <= 1, p.Skew > 10))
		pBefore = *p
		verifProtect(p)
	}
	hBefore, tBefore := *DefaultHOTPParam, *DefaultTOTPParam
	t := verifTimeIn("t", 10)
	verifAssume(t.Unix() >= 0)
	code := verifString("code", 6)
	verifPoolAdversary(true)
	verifBeginOp()
	var out string
	var err error
	switch verifCase("op") {
	case 0:
		out, err = GenerateHOTP(secret, verifU64("counter"), p)
	case 1:
		_, err = ValidateHOTP(secret, code, verifU64("counter"), p)
	case 2:
		out, err = GenerateTOTP(secret, t, p)
	case 3:
		_, err = ValidateTOTP(secret, code, t, p)
	}
	verifEndOp()
	verifObserve("errnil", err == nil)
	if p != nil {
		verifAssert(*p == pBefore, "param-struct-unchanged")
	}
	verifAssert(*DefaultHOTPParam == hBefore, "default-hotp-param-unchanged")
	verifAssert(*DefaultTOTPParam == tBefore, "default-totp-param-unchanged")
	verifAssert(verifFrameViolations() == 0, "writes-only-call-private-or-owned-pool-memory")
	if verifSymbolic() {
		verifAssert(verifResultOwned(out), "result-shares-no-memory-with-arguments-pools-or-globals")
		verifAssert(!verifDependsOn(out, "pool_"), "result-independent-of-pool-content")
	}
}

// suites and lists handed out are copies: changing them does not change the registry
//
//verif:harness prop=C12 name=registry
//verif:cases quick k=0,44
//verif:cases thorough k=0..44
func verifH_C12_registry() {
	regBefore := verifRegistrySnapshot()
	names := ListSuites()
	k := verifCase("k")
	if k >= len(names) {
		verifSkipCase()
	}
	verifBeginOp()
	s, err := NewRawSuite(names[k])
	l1 := ListSuites()
	cfg := SuiteConfigFromRaws(names[k])
	s2, err2 := NewSuite(cfg)
	verifEndOp()
	verifAssert(err == nil && err2 == nil, "instantiates")
	verifAssert(verifFrameViolations() == 0, "lookups-write-nothing-shared")
	// scribble on everything that was returned
	for i := range l1 {
		l1[i] = "scribbled"
	}
	c := s.Config()
	c.Digits = 99
	c.Raw = "scribbled"
	c2 := s2.Config()
	c2.Hash = 9
	cfg.Digits = 77
	verifAssert(verifRegistryEqual(verifRegistrySnapshot(), regBefore), "registry-unaffected-by-changes-to-returned-values")
	l2 := ListSuites()
	verifAssert(len(l2) == len(names), "list-length-stable")
	if verifSymbolic() {
		verifAssert(!verifAliases(l1, l2), "each-list-is-a-fresh-slice")
	}
}

// a parsed URL handed to ParseOTPAuthURL is not modified (type in any letter case, any label)
//
//verif:harness prop=C12 name=url
//verif:cases quick hostlen=4 pathlen=3,6
//verif:opt maxpaths=4000
func verifH_C12_url() {
	hb := verifBytes("host", verifCase("hostlen"))
	for _, c := range hb {
		verifAssume(c < 0x80)
	}
	pb := verifBytes("path", verifCase("pathlen"))
	q := url.Values{}
	q.Set("secret", "JBSWY3DPEHPK3PXP")
	q.Set("digits", "8")
	u := &url.URL{Scheme: "otpauth", Host: string(hb), Path: "/" + string(pb), RawQuery: q.Encode()}
	before := *u
	verifProtect(u)
	verifBeginOp()
	p, err := ParseOTPAuthURL(u)
	verifEndOp()
	verifObserve("err", err == nil)
	_ = p
	verifAssert(*u == before, "parsed-url-argument-unchanged")
	verifAssert(verifFrameViolations() == 0, "writes-only-call-private-memory")
}

var verifLookupTexts = []string{
	"OCRA-1:HOTP-SHA1-7:QN08-T30S",                // well formed, not registered
	"OCRA-1:HOTP-SHA512-10:C-QN10-PSHA1-S064-T5M", // well formed, every component, not registered
	"OCRA-1:HOTP-SHA1-6:QN08",                     // registered
	"OCRA-1:HOTP-SHA1-6:QX08",                     // malformed
}

// Looking a suite string up - registered, well formed but unregistered, malformed, and with an
// arbitrary code-digits character - leaves the registry as it was: same names, same entries, same
// answers to the same questions afterwards.
//
//verif:harness prop=C12 name=lookups
//verif:cases quick text=0..4
func verifH_C12_lookups() { verifLookups() }

func verifLookups() {
	var name string
	if k := verifCase("text"); k < len(verifLookupTexts) {
		name = verifLookupTexts[k]
	} else {
		d := verifU8("digit")
		verifAssume(verifAnd(d >= '0', d <= '9'))
		verifPrefer(d == '7')
		name = "OCRA-1:HOTP-SHA256-" + string([]byte{d}) + ":QN10-T1M"
	}
	regBefore := verifRegistrySnapshot()
	knownBefore := IsKnownSuite(name)
	cfgBefore := SuiteConfigFromRaws(name)
	verifBeginOp()
	_, err1 := NewRawSuite(name)
	_ = IsKnownSuite(name)
	_ = SuiteConfigFromRaws(name)
	_, err2 := NewRawSuite(name)
	verifEndOp()
	verifObserve("err", err1 == nil)
	verifAssert((err1 == nil) == (err2 == nil), "same-question-same-answer")
	verifAssert(verifFrameViolations() == 0, "lookups-write-nothing-shared")
	verifAssert(verifRegistryEqual(verifRegistrySnapshot(), regBefore), "registry-unchanged-by-lookups")
	verifAssert(IsKnownSuite(name) == knownBefore, "known-flag-unchanged-by-lookups")
	verifAssert(SuiteConfigFromRaws(name) == cfgBefore, "registry-entry-unchanged-by-lookups")
}
