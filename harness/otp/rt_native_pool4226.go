//verif:requires rfc4226BufPool

package otp

func verifPoisonHOTPPool() {
	c := rfc4226BufPool.Get().(*[8]byte)
	for i := range c {
		c[i] = 0xA5
	}
	rfc4226BufPool.Put(c)
}
