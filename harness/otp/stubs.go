package otp

// Shared spec helpers and contract stubs of the harnesses.

// verifEnc32 is an independent RFC 4648 base32 encoder (upper case, no padding):
// 5-bit groups mapped to the alphabet by arithmetic, no table shared with the code.
func verifEnc32(b []byte) string {
	nbits := len(b) * 8
	nch := (nbits + 4) / 5
	out := make([]byte, nch)
	for i := 0; i < nch; i++ {
		var v uint8
		for k := 0; k < 5; k++ {
			bit := i*5 + k
			v <<= 1
			if bit < nbits {
				v |= (b[bit/8] >> (7 - uint(bit%8))) & 1
			}
		}
		out[i] = verifIteU8(v < 26, 'A'+v, '2'+(v-26))
	}
	return string(out)
}

// Contract of deriveRFC4226 as established by the harnesses "derive" and "refuse":
// a deterministic function CODE(key, counter, digits, alg) of exactly these
// arguments for digits 1..10 and the three hashes, an error otherwise.
var verifSeenKeys [][]byte

func verifStub_derive(secret []byte, counter uint64, digits int, algo Algorithm) (string, error) {
	verifSeenKeys = append(verifSeenKeys, append([]byte{}, secret...))
	if digits < 1 || digits > 10 || algo > 2 {
		return "", ErrUnsupportedAlgorithm
	}
	b := verifUF("CODE", 10, secret, counter, uint64(digits), uint64(algo))
	return string(b[:digits]), nil
}

// Contract of DecodeSecret for harnesses that pass secret = verifEnc32(key):
// the decoded key is key (established by C07 for every key; natively the real
// decoder runs on the real text).  verifDecodeFails selects the error outcome,
// for which the harness passes undecodable text natively.
var (
	verifCurKey      []byte
	verifDecodeFails bool
	verifDecodeCalls int
	verifCurSecretText string
)

func verifStub_DecodeSecret(secret string) ([]byte, error) {
	verifDecodeCalls++
	// the entry point hands its secret argument to the decoder unchanged
	verifAssert(verifStrEq(secret, verifCurSecretText), "secret-text-passed-to-decoder-unchanged")
	if verifDecodeFails {
		return nil, verifErrStub
	}
	return append([]byte{}, verifCurKey...), nil
}

type verifErrStubT struct{}

func (verifErrStubT) Error() string { return "stub: undecodable secret" }

var verifErrStub error = verifErrStubT{}

// verifSecretFor returns secret text for the key (natively real base32 text;
// symbolically the text is irrelevant because DecodeSecret is replaced by its contract).
func verifSecretFor(key []byte, fails bool) string {
	verifCurKey = key
	verifDecodeFails = fails
	verifDecodeCalls = 0
	verifCurSecretText = verifEnc32(key)
	if fails {
		verifCurSecretText = "!not*base32!"
	} else if verifSymbolic() {
		verifCurSecretText = "SYMBOLIC-TEXT-OF-THE-SECRET"
	}
	return verifCurSecretText
}

// verifKeyEquiv: the key handed to HMAC denotes the secret.  HMAC zero-pads keys shorter than
// its block size (RFC 2104), so "secret followed by zero bytes up to the block size" is the same
// key; anything else (truncation, other bytes, longer than a block) is not.
func verifKeyEquiv(got, secret []byte, alg int) bool {
	block := 64
	if alg == 2 {
		block = 128
	}
	if len(got) == len(secret) {
		return verifBytesEq(got, secret)
	}
	if len(got) < len(secret) || len(got) > block {
		return false
	}
	ok := verifBytesEq(got[:len(secret)], secret)
	for _, b := range got[len(secret):] {
		ok = verifAnd(ok, b == 0)
	}
	return ok
}
