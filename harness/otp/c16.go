package otp

import "net/url"

// C16 — provisioning URLs round-trip: parsing a generated otpauth URL returns its input.
// net/url's text layer is modelled by contract (see engine/neturl.go); the repository's own
// code runs from its SSA.

func verifNoColon(s string) bool {
	ok := true
	for i := 0; i < len(s); i++ {
		ok = verifAnd(ok, s[i] != ':')
	}
	return ok
}

//verif:harness prop=C16 name=roundtrip
//verif:cases quick kind=0,1 ilen=1,2 alen=1,2 secret=8
//verif:cases thorough kind=0,1 ilen=1,2,3 alen=1,2,3 secret=1,16
//verif:opt maxpaths=6000
func verifH_C16_roundtrip() {
	issuer := verifString("issuer", verifCase("ilen"))
	account := verifString("account", verifCase("alen"))
	verifAssume(verifNoColon(issuer))
	secret := verifString("secret", verifCase("secret"))
	d := verifU8("digits")
	a := verifU8("alg")
	verifAssume(a <= 2)
	period := verifUint("period")
	verifAssume(period <= 1<<31)
	in := URLParam{Issuer: issuer, AccountName: account, Secret: secret, Digits: Digits(d), Algorithm: Algorithm(a), Period: period}
	inBefore := in
	var u *url.URL
	var err error
	if verifCase("kind") == 0 {
		u, err = GenerateTOTPURL(in)
	} else {
		u, err = GenerateHOTPURL(in)
	}
	verifObserve("generr", err == nil)
	verifAssert(err == nil, "url-generated")
	if err != nil {
		return
	}
	verifAssert(in == inBefore, "parameters-unchanged")
	verifAssert(u.Scheme == "otpauth", "scheme-otpauth")
	wantHost := "totp"
	if verifCase("kind") == 1 {
		wantHost = "hotp"
	}
	verifAssert(u.Host == wantHost, "type-totp-or-hotp")
	// textual form and back (net/url round trip by contract, natively the real thing)
	u2, perr := url.Parse(u.String())
	verifAssert(perr == nil, "text-parses")
	if perr != nil {
		return
	}
	p, err := ParseOTPAuthURL(u2)
	verifObserve("parseerr", err == nil)
	verifAssert(err == nil, "generated-url-is-accepted-by-the-parser")
	if err != nil {
		return
	}
	verifObserve("issuer", p.Issuer)
	verifObserve("account", p.AccountName)
	wd := int(d)
	if wd == 0 {
		wd = 6
	}
	wp := period
	if wp == 0 || verifCase("kind") == 1 {
		wp = 30 // HOTP URLs carry no period: the parser's default
	}
	verifAssert(verifStrEq(p.Issuer, issuer), "issuer-round-trips")
	verifAssert(verifStrEq(p.AccountName, account), "account-name-round-trips")
	verifAssert(verifStrEq(p.Secret, secret), "secret-round-trips")
	verifAssert(int(p.Digits) == wd, "digits-round-trip-0-means-6")
	verifAssert(p.Algorithm == Algorithm(a), "hash-round-trips")
	verifAssert(p.Period == wp, "period-round-trips-0-means-30")
	verifAssert(verifStrEq(u2.Query().Get("issuer"), issuer), "issuer-parameter-equals-label-issuer")
}

// missing issuer / account / secret are refused
//
//verif:harness prop=C16 name=required
//verif:cases quick which=0,1,2 kind=0,1
func verifH_C16_required() {
	in := URLParam{Issuer: verifString("issuer", 2), AccountName: verifString("account", 2), Secret: verifString("secret", 2), Digits: 6}
	switch verifCase("which") {
	case 0:
		in.Issuer = ""
	case 1:
		in.AccountName = ""
	case 2:
		in.Secret = ""
	}
	var u *url.URL
	var err error
	if verifCase("kind") == 0 {
		u, err = GenerateTOTPURL(in)
	} else {
		u, err = GenerateHOTPURL(in)
	}
	verifObserve("err", err == nil)
	verifAssert(err != nil, "missing-field-refused")
	verifAssert(u == nil, "no-url-with-error")
}

// Parsing any otpauth URL either fails or returns exactly the numbers written in it.
//
//verif:harness prop=C16 name=numbers
//verif:cases quick dlen=0,1,3,4 plen=0,1,2,11 
//verif:cases thorough dlen=0..4,19,20 plen=0..4,10,11,19,20
//verif:opt maxpaths=8000
func verifH_C16_numbers() {
	db := verifBytes("dtext", verifCase("dlen"))
	pb := verifBytes("ptext", verifCase("plen"))
	// the texts are decimal numbers with an optional sign; other text: harness "text"
	num := func(b []byte) (int64, bool) {
		ok := len(b) > 0
		neg := false
		v := int64(0)
		for i, c := range b {
			verifAssume(c < 0x80)
			if i == 0 && len(b) > 1 {
				isSign := verifOr(c == '-', c == '+')
				neg = c == '-'
				ok = verifAnd(ok, verifOr(isSign, verifAnd(c >= '0', c <= '9')))
				v = verifIteI64(isSign, 0, int64(c-'0'))
				continue
			}
			ok = verifAnd(ok, verifAnd(c >= '0', c <= '9'))
			v = v*10 + int64(c-'0')
		}
		return verifIteI64(neg, -v, v), ok
	}
	dn, dok := num(db)
	pn, pok := num(pb)
	verifAssume(verifOr(len(db) == 0, dok))
	verifAssume(verifOr(len(pb) == 0, pok))
	q := url.Values{}
	q.Set("secret", "JBSWY3DPEHPK3PXP")
	if len(db) > 0 {
		q.Set("digits", string(db))
	}
	if len(pb) > 0 {
		q.Set("period", string(pb))
	}
	u := &url.URL{Scheme: "otpauth", Host: "totp", Path: "/Example:alice", RawQuery: q.Encode()}
	p, err := ParseOTPAuthURL(u)
	verifObserve("err", err == nil)
	if err != nil {
		verifAssert(p == nil, "no-result-with-error")
		return
	}
	verifObserve("digits", int(p.Digits))
	verifObserve("period", uint64(p.Period))
	if len(db) > 0 && len(db) <= 18 {
		verifAssert(int64(p.Digits) == dn, "digits-are-exactly-the-number-written")
	}
	if len(db) == 0 {
		verifAssert(p.Digits == 6, "absent-digits-mean-6")
	}
	if len(pb) > 0 && len(pb) <= 18 {
		verifAssert(verifAnd(pn >= 0, uint64(p.Period) == uint64(pn)), "period-is-exactly-the-number-written")
	}
	if len(pb) == 0 {
		verifAssert(p.Period == 30, "absent-period-means-30")
	}
}

// type in any letter case, scheme, label format, nil
//
//verif:harness prop=C16 name=shape
//verif:cases quick which=0..4
func verifH_C16_shape() {
	q := url.Values{}
	q.Set("secret", "JBSWY3DPEHPK3PXP")
	u := &url.URL{Scheme: "otpauth", Host: "totp", Path: "/Example:alice", RawQuery: q.Encode()}
	switch verifCase("which") {
	case 0: // nil URL
		p, err := ParseOTPAuthURL(nil)
		verifAssert(err != nil && p == nil, "nil-url-refused")
		return
	case 1: // type in any letter case
		hb := verifBytes("host", 4)
		low := make([]byte, 4)
		for i, c := range hb {
			verifAssume(c < 0x80)
			low[i] = verifIteU8(verifAnd(c >= 'A', c <= 'Z'), c+32, c)
		}
		u.Host = string(hb)
		isT := verifStrEq(string(low), "totp")
		isH := verifStrEq(string(low), "hotp")
		_, err := ParseOTPAuthURL(u)
		verifObserve("err", err == nil)
		verifAssert((err == nil) == verifOr(isT, isH), "type-accepted-iff-totp-or-hotp-in-any-case")
		return
	case 2: // other scheme
		sb := verifBytes("scheme", 7)
		u.Scheme = string(sb)
		_, err := ParseOTPAuthURL(u)
		verifObserve("err", err == nil)
		verifAssert((err == nil) == verifStrEq(string(sb), "otpauth"), "scheme-must-be-otpauth")
		return
	case 3: // label without a colon
		lb := verifBytes("label", 3)
		nocolon := true
		for _, c := range lb {
			nocolon = verifAnd(nocolon, c != ':')
		}
		verifAssume(nocolon)
		u.Path = "/" + string(lb)
		_, err := ParseOTPAuthURL(u)
		verifObserve("err", err == nil)
		verifAssert(err != nil, "label-without-colon-refused")
		return
	case 4: // unknown algorithm text
		q.Set("algorithm", "MD5")
		u.RawQuery = q.Encode()
		_, err := ParseOTPAuthURL(u)
		verifAssert(err != nil, "unknown-algorithm-refused")
	}
}
