package otp

// C15 — a suite's configuration always means what its suite string says.

// verifSayConcrete reads a (concrete) RFC 6287 suite name position by position - it does not
// split, does not upper-case and shares no code with the parser under test.
// OCRA-1:HOTP-<SHA1|SHA256|SHA512>-<d>:[C][-]Q<N|A|H><08|10>[-PSHA<1|256|512>][-S[nnn]][-T<n>[S|M|H]]
func verifSayConcrete(s string) (SuiteConfig, bool) {
	cfg := SuiteConfig{Raw: s}
	i := 0
	eat := func(lit string) bool {
		if len(s)-i >= len(lit) && s[i:i+len(lit)] == lit {
			i += len(lit)
			return true
		}
		return false
	}
	num := func() (int, int) {
		n, k := 0, 0
		for i < len(s) && s[i] >= '0' && s[i] <= '9' {
			n = n*10 + int(s[i]-'0')
			i++
			k++
		}
		return n, k
	}
	if !eat("OCRA-1:HOTP-SHA") {
		return cfg, false
	}
	h, k := num()
	switch {
	case h == 1 && k == 1:
		cfg.Hash = SHA1
	case h == 256 && k == 3:
		cfg.Hash = SHA256
	case h == 512 && k == 3:
		cfg.Hash = SHA512
	default:
		return cfg, false
	}
	if !eat("-") {
		return cfg, false
	}
	d, k := num()
	if k == 0 {
		return cfg, false
	}
	cfg.Digits = d
	if !eat(":") {
		return cfg, false
	}
	first := true
	sep := func() bool {
		if first {
			first = false
			return true
		}
		return eat("-")
	}
	if i < len(s) && s[i] == 'C' {
		sep()
		i++
		cfg.IncludeCounter = true
	}
	if i < len(s) && (s[i] == 'Q' || (s[i] == '-' && i+1 < len(s) && s[i+1] == 'Q')) {
		if !sep() {
			return cfg, false
		}
		i++ // Q
		if i+3 > len(s) {
			return cfg, false
		}
		f, nn := s[i], s[i+1:i+3]
		i += 3
		base := ChallengeFormat(0)
		switch f {
		case 'N':
			base = ChallengeNumeric08
		case 'A':
			base = ChallengeAlpha08
		case 'H':
			base = ChallengeHex08
		default:
			return cfg, false
		}
		switch nn {
		case "08":
		case "10":
			base++
		default:
			return cfg, false
		}
		cfg.Challenge = base
		cfg.IncludeChallenge = true
	}
	if i < len(s) && eat("-PSHA") {
		first = false
		p, k := num()
		switch {
		case p == 1 && k == 1:
			cfg.PasswordHash = PasswordSHA1
		case p == 256 && k == 3:
			cfg.PasswordHash = PasswordSHA256
		case p == 512 && k == 3:
			cfg.PasswordHash = PasswordSHA512
		default:
			return cfg, false
		}
		cfg.IncludePassword = true
	}
	if i < len(s) && eat("-S") {
		first = false
		_, k := num()
		if k != 0 && k != 3 {
			return cfg, false
		}
		cfg.IncludeSession = true
	}
	if i < len(s) && eat("-T") {
		first = false
		n, k := num()
		if k == 0 {
			return cfg, false
		}
		mult := 1 // the advertised unit-less "T1": 1 second (spec decision, see DESIGN.md)
		if i < len(s) {
			switch s[i] {
			case 'S':
				i++
			case 'M':
				mult = 60
				i++
			case 'H':
				mult = 3600
				i++
			}
		}
		cfg.TimeStep = n * mult
		cfg.IncludeTimestamp = true
	}
	return cfg, i == len(s)
}

func verifSortedNames() []string {
	names := ListSuites()
	for i := 1; i < len(names); i++ {
		for j := i; j > 0 && names[j] < names[j-1]; j-- {
			names[j], names[j-1] = names[j-1], names[j]
		}
	}
	return names
}

// every advertised name: registry entry, lookup, instantiation, list and known-test agree with the name
//
//verif:harness prop=C15 name=registry
//verif:cases quick k=0..49
func verifH_C15_registry() {
	names := verifSortedNames()
	k := verifCase("k")
	if k >= len(names) {
		verifSkipCase()
	}
	name := names[k]
	verifObserve("name", name)
	for j := 0; j < len(names); j++ {
		verifAssert(j == k || names[j] != name, "advertised-list-has-no-duplicates")
	}
	want, ok := verifSayConcrete(name)
	verifAssert(ok, "advertised-name-follows-the-naming-scheme")
	verifAssert(IsKnownSuite(name), "advertised-name-is-known")
	got := SuiteConfigFromRaws(name)
	got.Raw = name // the registry stores the name as the key
	verifAssert(got == want, "registry-entry-means-what-the-name-says")
	s, err := NewRawSuite(name)
	verifAssert(err == nil, "advertised-name-can-be-instantiated")
	if err == nil {
		verifAssert(s.String() == name, "suite-reports-its-string")
		verifAssert(s.Config() == want, "instantiated-config-means-what-the-name-says")
		verifAssert(s.Validate() == nil, "instantiated-suite-is-valid")
	}
}

//verif:harness prop=C15 name=count
//verif:cases quick x=0
func verifH_C15_count() {
	names := append([]string{}, verifSortedNames()...)
	verifObserve("n", len(names))
	verifAssert(len(names) == len(knownSuites), "list-has-one-entry-per-registered-suite")
	verifAssert(!IsKnownSuite(""), "empty-string-not-known")
	verifAssert(!IsKnownSuite("OCRA-1:HOTP-SHA1-6:QN09"), "unregistered-not-known")
	// the advertised list is what the registry holds whenever it is asked for: a caller that
	// filters or edits the list it received does not change what is advertised afterwards
	l := ListSuites()
	for i := range l {
		l[i] = ""
	}
	l = append(l[:0], "OCRA-1:HOTP-SHA1-6:QN09")
	again := verifSortedNames()
	verifAssert(len(again) == len(names), "list-unaffected-by-edits-of-an-earlier-list")
	same := len(again) == len(names)
	for i := 0; same && i < len(names); i++ {
		same = again[i] == names[i] && IsKnownSuite(again[i])
	}
	verifAssert(same, "list-unaffected-by-edits-of-an-earlier-list")
}

func verifDigitsStr(name string, n int) ([]byte, bool, int) {
	b := verifBytes(name, n)
	all := true
	v := 0
	for _, c := range b {
		// ASCII, and no separator inside a token (a separator would make it a different shape)
		verifAssume(verifAnd(c < 0x80, verifAnd(c != '-', c != ':')))
		all = verifAnd(all, verifAnd(c >= '0', c <= '9'))
		v = v*10 + int(c-'0')
	}
	return b, all, v
}

// Strings built from token schemata with symbolic characters: whenever the parser accepts,
// the configuration is what the components say; components outside the scheme must be rejected.
//
//verif:harness prop=C15 name=parser
//verif:cases quick hlen=1,3 dlen=1,2 hasC=0,1 plen=0,1 slen=-1,0 tlen=0,1
//verif:cases thorough hlen=1..3 dlen=1,2 hasC=0,1 plen=0,1,3 slen=-1,0,1,3 tlen=0,1,2
//verif:opt maxpaths=6000
func verifH_C15_parser() {
	var s []byte
	s = append(s, "OCRA-1:HOTP-SHA"...)
	hb, hdig, hv := verifDigitsStr("h", verifCase("hlen"))
	s = append(s, hb...)
	s = append(s, '-')
	db, ddig, dv := verifDigitsStr("d", verifCase("dlen"))
	s = append(s, db...)
	s = append(s, ':')
	want := SuiteConfig{}
	valid := verifAnd(hdig, ddig)
	hlen := verifCase("hlen")
	isH1 := verifAnd(hlen == 1, hv == 1)
	isH256 := verifAnd(hlen == 3, hv == 256)
	isH512 := verifAnd(hlen == 3, hv == 512)
	valid = verifAnd(valid, verifOr(isH1, verifOr(isH256, isH512)))
	want.Hash = Algorithm(verifIteInt(isH256, 1, verifIteInt(isH512, 2, 0)))
	want.Digits = dv
	if verifCase("hasC") == 1 {
		s = append(s, "C-"...)
		want.IncludeCounter = true
	}
	// challenge token Q<f><nn>
	f := verifU8("qf")
	verifAssume(verifAnd(f < 0x80, verifAnd(f != '-', f != ':')))
	nb, ndig, nv := verifDigitsStr("qn", 2)
	s = append(s, 'Q', f)
	s = append(s, nb...)
	fU := verifIteU8(verifAnd(f >= 'a', f <= 'z'), f-32, f)
	fOK := verifOr(fU == 'N', verifOr(fU == 'A', fU == 'H'))
	nOK := verifAnd(ndig, verifOr(verifAnd(nb[0] == '0', nb[1] == '8'), verifAnd(nb[0] == '1', nb[1] == '0')))
	valid = verifAnd(valid, verifAnd(fOK, nOK))
	base := verifIteInt(fU == 'N', 1, verifIteInt(fU == 'A', 3, 5))
	want.Challenge = ChallengeFormat(base + verifIteInt(nv == 10, 1, 0))
	want.IncludeChallenge = true
	if pl := verifCase("plen"); pl > 0 {
		s = append(s, "-PSHA"...)
		pb, pdig, pv := verifDigitsStr("p", pl)
		s = append(s, pb...)
		p1 := verifAnd(pl == 1, pv == 1)
		p256 := verifAnd(pl == 3, pv == 256)
		p512 := verifAnd(pl == 3, pv == 512)
		valid = verifAnd(valid, verifAnd(pdig, verifOr(p1, verifOr(p256, p512))))
		want.IncludePassword = true
		want.PasswordHash = PasswordHashAlgorithm(verifIteInt(p1, 1, verifIteInt(p256, 2, 3)))
	}
	if sl := verifCase("slen"); sl >= 0 {
		s = append(s, "-S"...)
		sb := verifBytes("s", sl) // arbitrary bytes: only decimal digits (0 or 3 of them) are in the scheme
		for _, c := range sb {
			verifAssume(verifAnd(c < 0x80, verifAnd(c != '-', c != ':')))
			valid = verifAnd(valid, verifAnd(c >= '0', c <= '9'))
		}
		valid = verifAnd(valid, verifOr(sl == 0, sl == 3))
		s = append(s, sb...)
		want.IncludeSession = true
	}
	if tl := verifCase("tlen"); tl > 0 {
		s = append(s, "-T"...)
		tb, tdig, tv := verifDigitsStr("t", tl)
		u := verifU8("tu")
		verifAssume(verifAnd(u < 0x80, verifAnd(u != '-', u != ':')))
		s = append(s, tb...)
		s = append(s, u)
		uOK := verifOr(u == 'S', verifOr(u == 'M', u == 'H'))
		valid = verifAnd(valid, verifAnd(tdig, uOK))
		want.IncludeTimestamp = true
		want.TimeStep = tv * verifIteInt(u == 'S', 1, verifIteInt(u == 'M', 60, 3600))
	}
	str := string(s)
	want.Raw = str
	if verifSymbolic() {
		verifAssume(!IsKnownSuite(str)) // registered names: harness registry
	}
	got, err := NewRawSuite(str)
	verifObserve("accepted", err == nil)
	verifAssert(verifImplies(!valid, err != nil), "string-outside-the-naming-scheme-is-rejected")
	if err != nil {
		return
	}
	verifAssert(got.String() == str, "suite-reports-its-string")
	verifAssert(got.Config() == want, "accepted-string-means-what-it-says")
	verifAssert(got.Validate() == nil, "accepted-suite-is-valid")
}

// malformed strings must be rejected
//
//verif:harness prop=C15 name=malformed
//verif:cases quick kind=0..7
func verifH_C15_malformed() {
	x := verifU8("x")
	verifAssume(verifAnd(x != ':', x < 0x80))
	var str string
	switch verifCase("kind") {
	case 0: // wrong version digit
		verifAssume(x != '1')
		str = "OCRA-" + string([]byte{x}) + ":HOTP-SHA1-6:QN08"
	case 1: // version with trailing junk
		str = "OCRA-1" + string([]byte{x}) + ":HOTP-SHA1-6:QN08"
	case 2: // a fourth part
		str = "OCRA-1:HOTP-SHA1-6:QN08:" + string([]byte{x})
	case 3: // unknown data input token
		xu := verifIteU8(verifAnd(x >= 'a', x <= 'z'), x-32, x)
		verifAssume(verifAnd(verifAnd(xu != 'C', xu != 'Q'), verifAnd(xu != 'P', verifAnd(xu != 'S', xu != 'T'))))
		verifAssume(x != '-')
		str = "OCRA-1:HOTP-SHA1-6:QN08-" + string([]byte{x})
	case 4: // missing parts
		str = "OCRA-1:HOTP-SHA1-6"
	case 5: // empty data input token
		str = "OCRA-1:HOTP-SHA1-6:QN08-"
	case 6: // crypto function with a different mode
		str = "OCRA-1:HOTP-SHA1-6-" + string([]byte{x}) + ":QN08"
	case 7: // empty string / no colon
		str = string([]byte{x})
	}
	_, err := NewRawSuite(str)
	verifObserve("accepted", err == nil)
	verifAssert(err != nil, "malformed-suite-string-rejected")
}
