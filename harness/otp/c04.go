package otp

import "time"

// C04 — TOTP validation accepts exactly the codes of time steps inside the skew window.

func verifDerivations() int {
	if verifSymbolic() {
		return len(verifSeenCounters)
	}
	return verifHMACCount()
}

// the step validation starts from is floor(unix/period) (period 0 = 30), for every period
//
//verif:harness prop=C04 name=base
//verif:cases quick keylen=10 nilparam=0,1
//verif:replace github.com/ja7ad/otp.deriveRFC4226=verifStub_deriveRec
//verif:replace github.com/ja7ad/otp.DecodeSecret=verifStub_DecodeSecret
func verifH_C04_base() {
	key := verifBytes("key", verifCase("keylen"))
	t := verifTimeIn("t", 10)
	u := t.Unix()
	verifAssume(verifAnd(u >= 0, u < 1<<62))
	period := verifUint("period")
	verifAssume(period <= 1<<32)
	var p *Param
	wp, wd, wa := uint64(period), 6, SHA1
	if verifCase("nilparam") == 1 {
		wp = 30
	} else {
		p = &Param{Digits: 6, Algorithm: SHA1, Period: period, Skew: 0}
	}
	if wp == 0 {
		wp = 30
	}
	code := verifString("code", 6)
	secret := verifSecretFor(key, false)
	verifResetSeen()
	defBefore := *DefaultTOTPParam
	ok, err := ValidateTOTP(secret, code, t, p)
	verifObserve("ok", ok)
	verifAssert(ok == (err == nil), "verdict-and-error-agree")
	verifAssert(*DefaultTOTPParam == defBefore, "default-param-unchanged")
	if verifSymbolic() {
		verifAssert(len(verifSeenCounters) == 1, "skew-0-one-derivation")
		if len(verifSeenCounters) != 1 {
			return
		}
		verifAssert(verifIsFloor(verifSeenCounters[0], wp, uint64(u)), "base-step-is-floor-of-unix-over-period")
		verifAssert(verifSeenDigits[0] == wd, "digits-of-param")
		verifAssert(verifSeenAlgs[0] == wa, "hash-of-param")
		exp, _ := verifStub_derive(key, verifSeenCounters[0], wd, wa)
		verifAssert(ok == verifStrEq(code, exp), "skew-0-accept-iff-code-of-base-step")
	} else if wp <= 1<<20 {
		// native twin (replay of a model): the real codes of the neighbouring steps are accepted
		// exactly when they equal the code of the base step
		own, gerr := GenerateTOTP(secret, t, &Param{Digits: 6, Algorithm: SHA1, Period: uint(wp)})
		for k := int64(-12); gerr == nil && k <= 12; k++ {
			tt := t.Add(time.Duration(k*int64(wp)) * time.Second)
			if tt.Unix() < 0 {
				continue
			}
			c, cerr := GenerateTOTP(secret, tt, &Param{Digits: 6, Algorithm: SHA1, Period: uint(wp)})
			if cerr != nil {
				continue
			}
			ok2, _ := ValidateTOTP(secret, c, t, p)
			verifAssert(ok2 == (c == own), "skew-0-accept-iff-code-of-base-step")
		}
	}
}

//verif:harness prop=C04 name=window
//verif:cases quick skew=0,1,2,10 digits=6,10 keylen=10 codesrc=0,1,2 period=0,30
//verif:cases thorough skew=0,1,2,5,10 digits=6,10 keylen=20 codesrc=0,1,2 period=0,3600
//verif:replace github.com/ja7ad/otp.deriveRFC4226=verifStub_derive
//verif:replace github.com/ja7ad/otp.DecodeSecret=verifStub_DecodeSecret
//verif:opt maxpaths=4000 unwind=1000
func verifH_C04_window() {
	s := verifCase("skew")
	d := verifCase("digits")
	period := uint(verifCase("period"))
	wp := uint64(period)
	if wp == 0 {
		wp = 30
	}
	alg := Algorithm(verifU8("alg"))
	verifAssume(alg <= 2)
	key := verifBytes("key", verifCase("keylen"))
	t := verifTimeIn("t", 10)
	// The base step is abstracted: the package's replaceable time-counter hook returns an
	// arbitrary step n (that the real hook yields floor(unix/period), period 0 = 30, is
	// harness "base"); what is decided here is the window logic around n for every n.
	n := verifU64("step")
	verifAssume(n >= uint64(s))            // the whole window lies at or after step 0
	verifAssume(n <= ^uint64(0)-uint64(s)) // and below 2^64
	calls := 0
	var gotPeriod uint
	var gotT time.Time
	orig := TimeCounterFunc
	TimeCounterFunc = func(tt time.Time, p uint) uint64 { calls++; gotPeriod, gotT = p, tt; return n }
	defer func() { TimeCounterFunc = orig }()
	var code string
	src := verifCase("codesrc")
	if src >= 1 {
		cc := verifU64("cc")
		code, _ = deriveRFC4226(key, cc, d, alg)
		verifPreferNatural(key, n, cc, s, d, alg)
		if src == 2 {
			pos := verifInt("editpos")
			verifAssume(verifAnd(pos >= 0, pos < d))
			nb := verifU8("editbyte")
			b := []byte(code)
			for i := range b {
				verifPrefer(verifImplies(i == pos, nb != b[i]))
				b[i] = verifIteU8(i == pos, nb, b[i])
			}
			code = string(b)
		}
	} else {
		code = verifString("code", d)
	}
	secret := verifSecretFor(key, false)
	ok, err := ValidateTOTP(secret, code, t, &Param{Digits: Digits(d), Algorithm: alg, Skew: uint(s), Period: period})
	verifObserve("ok", ok)
	want := false
	for k := -s; k <= s; k++ {
		exp, e := deriveRFC4226(key, n+uint64(k), d, alg)
		want = verifOr(want, verifAnd(e == nil, verifStrEq(code, exp)))
	}
	verifAssert(calls == 1, "one-time-counter-evaluation")
	verifAssert(uint64(gotPeriod) == wp, "period-resolved-0-means-30")
	verifAssert(gotT == t, "time-counter-gets-the-instant")
	if src == 0 {
		verifAssert(verifImplies(ok, want), "accepted-only-if-code-of-step-in-window")
	} else {
		verifAssert(ok == want, "accept-iff-code-of-step-in-window")
	}
	verifAssert(ok == (err == nil), "verdict-and-error-agree")
}

// a skew above 10 is refused, so the work per call is bounded
//
//verif:harness prop=C04 name=refuse
//verif:cases quick keylen=10 codesrc=0,1
//verif:replace github.com/ja7ad/otp.deriveRFC4226=verifStub_deriveRec
//verif:replace github.com/ja7ad/otp.DecodeSecret=verifStub_DecodeSecret
//verif:opt unwind=40 unwind_is_violation=1 maxpaths=300
func verifH_C04_refuse() {
	skew := verifUint("skew")
	verifAssume(skew > 10)
	verifPrefer(skew < 40)
	key := verifBytes("key", verifCase("keylen"))
	t := verifTimeIn("t", 10)
	u := t.Unix()
	verifAssume(verifAnd(u >= 1<<20, u < 1<<40))
	var code string
	if verifCase("codesrc") == 1 {
		cc := verifU64("cc")
		code, _ = verifStubOrReal(key, cc)
		verifPrefer(cc-uint64(u)/30+uint64(skew) <= 2*uint64(skew))
	} else {
		code = verifString("code", 6)
	}
	secret := verifSecretFor(key, false)
	verifResetSeen()
	ok, err := ValidateTOTP(secret, code, t, &Param{Digits: 6, Algorithm: SHA1, Skew: skew, Period: 30})
	verifObserve("ok", ok)
	verifAssert(!ok, "large-skew-rejected")
	verifAssert(err != nil, "large-skew-error")
	verifAssert(verifDerivations() <= 21, "work-bounded-by-largest-window")
	verifAssert(verifDerivations() == 0, "no-derivation-for-refused-skew")
}

func verifStubOrReal(key []byte, cc uint64) (string, error) {
	if verifSymbolic() {
		return verifStub_derive(key, cc, 6, SHA1)
	}
	return deriveRFC4226(key, cc, 6, SHA1)
}
