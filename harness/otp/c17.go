package otp

// C17 — OCRA input helpers encode as documented; numeric questions follow RFC 6287.

func verifBE8(v uint64, b []byte) bool {
	ok := len(b) == 8
	if len(b) != 8 {
		return false
	}
	for i := 0; i < 8; i++ {
		ok = verifAnd(ok, b[i] == byte(v>>(56-8*uint(i))))
	}
	return ok
}

//verif:harness prop=C17 name=be8
//verif:cases quick x=0
func verifH_C17_be8() {
	v := verifU64("v")
	b := To8ByteBigEndian(v)
	verifObserve("b", b)
	verifAssert(verifBE8(v, b), "big-endian-8-bytes-of-every-uint64")
}

// decimal text -> 8 byte big-endian counter (both helpers), errors for non-decimal text
//
//verif:harness prop=C17 name=decimal
//verif:cases quick len=0,1,3,19,21 which=0,1 kind=0,1
//verif:cases thorough len=0..6,18,19,20,21 which=0,1 kind=0,1
//verif:opt maxpaths=6000
func verifH_C17_decimal() {
	L := verifCase("len")
	b := verifBytes("s", L)
	allDigits := true
	val := uint64(0)
	for _, c := range b {
		verifAssume(c < 0x80)
		allDigits = verifAnd(allDigits, verifAnd(c >= '0', c <= '9'))
		val = val*10 + uint64(c-'0')
	}
	if verifCase("kind") == 0 {
		verifAssume(allDigits)
	} else {
		if L == 0 {
			verifSkipCase()
		}
		verifAssume(!allDigits) // signs, letters, spaces, anything else
	}
	var out []byte
	var err error
	if verifCase("which") == 0 {
		out, err = ParseDecimalToBigEndian8(string(b))
	} else {
		out, err = ParseDecimal64BigEndian(string(b))
	}
	verifObserve("err", err == nil)
	verifObserve("out", out)
	switch {
	case verifCase("kind") == 1 || L == 0:
		verifAssert(err != nil, "malformed-decimal-rejected")
		verifAssert(out == nil, "no-bytes-with-error")
	case L <= 19: // every 1..19 digit number fits in 64 bits
		verifAssert(err == nil, "decimal-accepted")
		verifAssert(verifBE8(val, out), "big-endian-of-the-decimal-value")
	case L >= 21: // no 21 digit number without leading zeros fits; with leading zeros it may
		verifAssert(verifImplies(b[0] != '0', err != nil), "overlong-value-rejected")
		verifAssert(verifImplies(err == nil, len(out) == 8), "eight-bytes")
	default:
		verifAssert(verifImplies(err == nil, len(out) == 8), "eight-bytes")
	}
}

// LeftPadHex / ParseHexTimestamp
//
//verif:harness prop=C17 name=hexpad
//verif:cases quick len=0,3,8 
//verif:cases thorough len=0..9
//verif:opt maxpaths=6000
func verifH_C17_hexpad() {
	L := verifCase("len")
	s := verifString("s", L)
	w := verifInt("w")
	verifAssume(verifAnd(w >= 0, w <= 20)) // stated bound of this harness (property: 0..2^20)
	r := LeftPadHex(s, w)
	verifObserve("r", r)
	verifAssert(len(r) == w, "result-has-the-requested-width")
	if len(r) != w {
		return
	}
	ok := true
	for i := 0; i < len(r); i++ {
		pad := w - L // may be negative: then the rightmost w characters are kept
		var wantc byte
		if i < pad {
			wantc = '0'
		} else {
			wantc = s[i-pad]
		}
		ok = verifAnd(ok, r[i] == wantc)
	}
	verifAssert(ok, "left-padded-with-zeros-or-rightmost-characters")
}

func verifHexVal(c byte) uint8 {
	return verifIteU8(verifAnd(c >= '0', c <= '9'), c-'0', verifIteU8(verifAnd(c >= 'a', c <= 'f'), c-'a'+10, c-'A'+10))
}

func verifIsHex(c byte) bool {
	return verifOr(verifAnd(c >= '0', c <= '9'), verifOr(verifAnd(c >= 'a', c <= 'f'), verifAnd(c >= 'A', c <= 'F')))
}

//verif:harness prop=C17 name=hextimestamp
//verif:cases quick len=0,1,7,16,17,18 kind=0,1
//verif:cases thorough len=0..20 kind=0,1
//verif:opt maxpaths=6000
func verifH_C17_hextimestamp() {
	L := verifCase("len")
	b := verifBytes("ts", L)
	allHex := true
	for _, c := range b {
		verifAssume(c < 0x80)
		allHex = verifAnd(allHex, verifIsHex(c))
	}
	if verifCase("kind") == 0 {
		verifAssume(allHex)
	} else {
		if L == 0 {
			verifSkipCase()
		}
		verifAssume(!allHex)
	}
	out, err := ParseHexTimestamp(string(b))
	verifObserve("err", err == nil)
	verifObserve("out", out)
	if verifCase("kind") == 1 {
		verifAssert(err != nil, "non-hex-text-rejected")
		return
	}
	if L <= 16 {
		verifAssert(err == nil, "hex-timestamp-accepted")
		verifAssert(len(out) == 8, "eight-bytes")
		if err != nil || len(out) != 8 {
			return
		}
		// big-endian value of the hex number: nibble k of the 16 is '0' for the padding
		ok := true
		for i := 0; i < 16; i++ {
			var nib uint8
			if i >= 16-L {
				nib = verifHexVal(b[i-(16-L)])
			}
			var got uint8
			if i%2 == 0 {
				got = out[i/2] >> 4
			} else {
				got = out[i/2] & 0x0f
			}
			ok = verifAnd(ok, got == nib)
		}
		verifAssert(ok, "left-padded-to-16-hex-digits-and-decoded")
	} else if L%2 == 1 {
		verifAssert(err != nil, "odd-length-beyond-16-rejected")
	} else {
		verifAssert(verifImplies(err == nil, len(out) == L/2), "longer-even-hex-decodes-to-that-many-bytes")
	}
}

// five hex request fields go to the corresponding five byte fields
//
//verif:harness prop=C17 name=hexinput
//verif:cases quick lens=0,20402,22222 bad=0..5
//verif:cases thorough lens=0,20402,22222,40404,2 bad=0..5
//verif:opt maxpaths=6000
func verifH_C17_hexinput() {
	lens := verifCase("lens")
	bad := verifCase("bad") // 0 = all valid, k = field k invalid
	var f [5][]byte
	names := []string{"c", "q", "p", "s", "t"}
	for k := 4; k >= 0; k-- {
		n := (lens % 10)
		lens /= 10
		f[k] = verifBytes(names[k], n)
	}
	for k := 0; k < 5; k++ {
		hexok := verifAnd(true, len(f[k])%2 == 0)
		for _, c := range f[k] {
			verifAssume(c < 0x80)
			hexok = verifAnd(hexok, verifIsHex(c))
		}
		if bad == k+1 {
			if len(f[k]) == 0 {
				verifSkipCase()
			}
			verifAssume(!hexok)
		} else {
			verifAssume(hexok)
		}
	}
	in, err := HexInputToOCRA(string(f[0]), string(f[1]), string(f[2]), string(f[3]), string(f[4]))
	verifObserve("err", err == nil)
	if bad != 0 {
		verifAssert(err != nil, "invalid-hex-field-rejected")
		verifAssert(in.Counter == nil && in.Challenge == nil && in.Password == nil && in.SessionInfo == nil && in.Timestamp == nil, "zero-value-with-error")
		return
	}
	verifAssert(err == nil, "valid-hex-fields-accepted")
	got := [5][]byte{in.Counter, in.Challenge, in.Password, in.SessionInfo, in.Timestamp}
	for k := 0; k < 5; k++ {
		if len(f[k]) == 0 {
			verifAssert(got[k] == nil, "empty-text-means-absent-field")
			continue
		}
		ok := len(got[k]) == len(f[k])/2
		if len(got[k]) == len(f[k])/2 {
			for i := range got[k] {
				ok = verifAnd(ok, got[k][i] == verifHexVal(f[k][2*i])<<4|verifHexVal(f[k][2*i+1]))
			}
		}
		verifAssert(ok, "field-is-the-decoding-of-the-corresponding-text")
	}
}

// RFC 6287 question packing: decimal -> hex text (math/big by contract), right-padded with '0'
// to 256 hex digits = 128 bytes, also for an odd number of hex digits.
//
//verif:harness prop=C17 name=question
//verif:cases quick hexlen=1,2,7,8,53,54 declen=8
//verif:cases thorough hexlen=1..54,255,256 declen=1,8,10,64
//verif:opt maxpaths=3000
func verifH_C17_question() {
	L := verifCase("declen")
	d := verifBytes("dec", L)
	for _, c := range d {
		verifAssume(verifAnd(c >= '0', c <= '9'))
	}
	out, err := ParseDecimalChallengeRFC6287(string(d))
	verifObserve("err", err == nil)
	verifObserve("out", out)
	verifAssert(err == nil, "decimal-question-accepted")
	verifAssert(len(out) == 128, "128-bytes")
	if err != nil || len(out) != 128 {
		return
	}
	var x []byte // the hex digits of the number
	if verifSymbolic() {
		x = verifBigHexDigits()
	} else {
		x = verifDecToHex(d)
	}
	ok := true
	for i := 0; i < 128; i++ {
		hi, lo := uint8(0), uint8(0)
		if 2*i < len(x) {
			hi = verifHexVal(x[2*i])
		}
		if 2*i+1 < len(x) {
			lo = verifHexVal(x[2*i+1])
		}
		ok = verifAnd(ok, out[i] == hi<<4|lo)
	}
	verifAssert(ok, "hex-digits-of-the-number-right-padded-with-zero-nibbles")
}

// non-decimal questions are rejected
//
//verif:harness prop=C17 name=questionbad
//verif:cases quick declen=0,1,3 hexlen=1
func verifH_C17_questionbad() {
	L := verifCase("declen")
	d := verifBytes("dec", L)
	bad := L == 0
	for i, c := range d {
		verifAssume(c < 0x80)
		isd := verifAnd(c >= '0', c <= '9')
		sign := verifAnd(i == 0 && L > 1, verifOr(c == '+', c == '-'))
		bad = verifOr(bad, verifAnd(!isd, !sign))
	}
	verifAssume(bad)
	out, err := ParseDecimalChallengeRFC6287(string(d))
	verifObserve("err", err == nil)
	verifAssert(err != nil, "non-decimal-question-rejected")
	verifAssert(out == nil, "no-bytes-with-error")
}

// verifDecToHex: schoolbook decimal -> hexadecimal text (native twin of the math/big contract)
func verifDecToHex(dec []byte) []byte {
	digits := make([]int, len(dec))
	for i, c := range dec {
		digits[i] = int(c - '0')
	}
	var rev []byte
	for {
		allZero := true
		rem := 0
		for i := range digits {
			cur := rem*10 + digits[i]
			digits[i] = cur / 16
			rem = cur % 16
			if digits[i] != 0 {
				allZero = false
			}
		}
		rev = append(rev, "0123456789abcdef"[rem])
		if allZero {
			break
		}
	}
	out := make([]byte, len(rev))
	for i := range rev {
		out[i] = rev[len(rev)-1-i]
	}
	return out
}
