package otp

import "time"

// Translator validation: the repository's own published vectors are pushed
// through the executor in concrete mode (real HMAC) and must come out right.
//
//verif:harness prop=SELF name=selftest
//verif:cases quick x=0
func verifH_selftest() {
	secret := "GEZDGNBVGY3TQOJQGEZDGNBVGY3TQOJQ" // "12345678901234567890"
	want := []string{"755224", "287082", "359152", "969429", "338314", "254676", "287922", "162583", "399871", "520489"}
	for i, w := range want {
		got, err := GenerateHOTP(secret, uint64(i), nil)
		verifAssert(err == nil, "rfc4226-noerr")
		verifAssert(got == w, "rfc4226-vector")
		ok, err := ValidateHOTP(secret, w, uint64(i), nil)
		verifAssert(ok, "rfc4226-validate")
		verifAssert(err == nil, "rfc4226-validate-noerr")
	}
	// RFC 6238 (SHA1, 8 digits)
	for _, v := range []struct {
		t int64
		w string
	}{{59, "94287082"}, {1111111109, "07081804"}, {1111111111, "14050471"}, {1234567890, "89005924"}, {2000000000, "69279037"}, {20000000000, "65353130"}} {
		got, err := GenerateTOTP(secret, time.Unix(v.t, 0), &Param{Digits: 8, Period: 30, Algorithm: SHA1})
		verifAssert(err == nil, "rfc6238-noerr")
		verifAssert(got == v.w, "rfc6238-vector")
	}
	// RFC 6287 one-way challenge response, OCRA-1:HOTP-SHA1-6:QN08
	s, err := NewRawSuite("OCRA-1:HOTP-SHA1-6:QN08")
	verifAssert(err == nil, "suite")
	for _, v := range []struct{ q, w string }{{"00000000", "237653"}, {"11111111", "243178"}, {"22222222", "653583"}} {
		ch, err := ParseDecimalChallengeRFC6287(v.q)
		_ = err
		got, err2 := GenerateOCRA(secret, s, OCRAInput{Challenge: ch})
		verifAssert(err2 == nil, "rfc6287-noerr")
		verifAssert(got == v.w, "rfc6287-vector")
	}
	b, err := DecodeSecret("  mzxw6ytboi ")
	verifAssert(err == nil, "b32-noerr")
	verifAssert(string(b) == "foobar", "b32-vector")
	hx, err := HexInputToOCRA("0000000000000001", "", "", "", "")
	verifAssert(err == nil && len(hx.Counter) == 8 && hx.Counter[7] == 1, "hex-input")
}
