package otp

import "time"

// Symbolic runtime of the verification harnesses: every function below is an
// intrinsic of the gosym executor (declared without body on purpose).  The
// native twin with real bodies is rt_native.go (used for replay only).

func verifU8(name string) uint8
func verifU16(name string) uint16
func verifU32(name string) uint32
func verifU64(name string) uint64
func verifUint(name string) uint
func verifInt(name string) int
func verifI64(name string) int64
func verifBool(name string) bool
func verifBytes(name string, n int) []byte
func verifString(name string, n int) string
func verifCase(name string) int
func verifAssume(c bool)
func verifAssert(c bool, name string)
func verifFail(name string)
func verifReach(name string)
func verifObserve(name string, v any)
func verifAnd(a, b bool) bool
func verifOr(a, b bool) bool
func verifImplies(a, b bool) bool
func verifIteU64(c bool, a, b uint64) uint64
func verifIteInt(c bool, a, b int) int
func verifIteU8(c bool, a, b uint8) uint8
func verifStrEq(a, b string) bool
func verifBytesEq(a, b []byte) bool
func verifPanics(f func()) bool
func verifBeginOp()
func verifEndOp()
func verifProtect(v any)
func verifHMACCount() int
func verifHMACAlg(i int) int
func verifHMACKey(i int) []byte
func verifHMACMsg(i int) []byte
func verifHMACDigest(i int) []byte
func verifHMACSums(i int) int
func verifUseModelDigests()
func verifSymbolic() bool
func verifMul128Le(a, b, c uint64) bool
func verifFrameViolations() int
func verifPoolAdversary(on bool)
func verifRandMayFail(on bool)
func verifRandCalls() int
func verifTraceOn(on bool)
func verifDependsOn(v any, prefix string) bool
func verifErrInfo(err error) int
func verifAliases(a, b any) bool
func verifUF(name string, n int, key []byte, a, b, c uint64) []byte
func verifAssertBytesEq(a, b []byte, name string)
func verifPrefer(c bool)
func verifTime(name string) time.Time
func verifTimeIn(name string, loc int) time.Time
func verifTimeAt(name string, loc int, sec int64) time.Time
func verifSkipCase()
func verifRandStream(i int) []byte
func verifDependsOnExact(v any, name string) bool
func verifBytesSym(name string, max, spare int) []byte
func verifByteAt(b []byte, i int) byte
func verifResultOwned(v any) bool
func verifTraceLeaks(prefix string) int
func verifTraceClass(class string)
func verifBigHexDigits() []byte
func verifDecimalOf(hex []byte, declen int) string
func verifIteI64(c bool, a, b int64) int64
func verifUFv(name string, n int, bytes []byte, nums ...uint64) []byte
