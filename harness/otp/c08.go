package otp

// C08 — random secrets are full-length CSPRNG output, base32-encoded without padding.

//verif:harness prop=C08 name=random
//verif:cases quick alg=0..2 decodeupto=20
//verif:cases thorough alg=0..2 decodeupto=32
//verif:opt unwind=4000
func verifH_C08_random() {
	alg := verifCase("alg")
	size := []int{20, 32, 64}[alg]
	s1, err1 := RandomSecret(Algorithm(alg))
	verifObserve("s1", s1)
	verifAssert(err1 == nil, "no-error")
	verifAssert(verifRandCalls() == 1, "one-read-of-the-random-source")
	if verifRandCalls() != 1 {
		return
	}
	r1 := verifRandStream(0)
	verifAssert(len(r1) == size, "reads-exactly-the-secret-size")
	if len(r1) != size {
		return
	}
	// upper-case unpadded base32 of exactly the delivered bytes, each byte used once, in order
	verifAssertBytesEq([]byte(s1), []byte(verifEnc32(r1)), "secret-is-base32-of-the-random-bytes")
	if size <= verifCase("decodeupto") || !verifSymbolic() {
		// through the real decoder (for the longer secrets of the quick tier this is the instance
		// n = 32 / 64 of C07's round-trip theorem, decided in C07's thorough tier)
		back, errb := DecodeSecret(s1)
		verifAssert(errb == nil, "secret-decodes")
		verifAssertBytesEq(back, r1, "decodes-back-to-the-random-bytes")
	}

	// a second call consumes a disjoint part of the stream and keeps no state from the first
	s2, err2 := RandomSecret(Algorithm(alg))
	verifAssert(err2 == nil, "second-no-error")
	verifAssert(verifRandCalls() == 2, "second-call-one-more-read")
	if verifRandCalls() != 2 {
		return
	}
	r2 := verifRandStream(1)
	verifAssert(len(r2) == size, "second-read-has-exactly-the-secret-size")
	if len(r2) != size {
		return
	}
	verifAssertBytesEq([]byte(s2), []byte(verifEnc32(r2)), "second-secret-is-base32-of-the-next-random-bytes")
	// a returned secret is a value: later calls (which reuse whatever scratch memory the
	// implementation keeps) leave it unchanged
	verifAssertBytesEq([]byte(s1), []byte(verifEnc32(r1)), "first-secret-unchanged-by-later-calls")
	if verifSymbolic() {
		verifAssert(verifResultOwned(s1) && verifResultOwned(s2), "secret-shares-no-memory-with-package-state")
		verifAssert(!verifDependsOnFirstStream(s2), "second-secret-independent-of-first-stream")
	}
}

func verifDependsOnFirstStream(s string) bool {
	// variables of the first read are named rand_<i>, those of the second rand_<i>#2
	dep := false
	for i := 0; i < 64; i++ {
		dep = dep || verifDependsOnExact(s, "rand_"+verifItoa(i))
	}
	return dep
}

func verifItoa(i int) string {
	if i == 0 {
		return "0"
	}
	s := ""
	for i > 0 {
		s = string(rune('0'+i%10)) + s
		i /= 10
	}
	return s
}

// an unsupported hash yields an error and no secret, and the random source is not touched
//
//verif:harness prop=C08 name=refuse
//verif:cases quick x=0
func verifH_C08_refuse() {
	a := verifU8("alg")
	verifAssume(a > 2)
	s, err := RandomSecret(Algorithm(a))
	verifObserve("s", s)
	verifAssert(err != nil, "unsupported-hash-error")
	verifAssert(s == "", "unsupported-hash-no-secret")
	verifAssert(verifRandCalls() == 0, "unsupported-hash-no-random-read")
}
