package otp

// C03 — HOTP validation accepts exactly the codes of counters inside the window.

//verif:harness prop=C03 name=window
//verif:cases quick skew=0,1,2,10 digits=6,10 keylen=10 dlen=0 codesrc=0,1,2
//verif:cases thorough skew=0,1,2,5,10 digits=1,6,10 keylen=20 dlen=0 codesrc=0,1,2
//verif:replace github.com/ja7ad/otp.deriveRFC4226=verifStub_derive
//verif:replace github.com/ja7ad/otp.DecodeSecret=verifStub_DecodeSecret
//verif:opt maxpaths=4000 unwind=1000
func verifH_C03_window() {
	s := verifCase("skew")
	d := verifCase("digits")
	alg := Algorithm(verifU8("alg"))
	verifAssume(alg <= 2)
	key := verifBytes("key", verifCase("keylen"))
	counter := verifU64("counter")
	verifAssume(counter <= ^uint64(0)-uint64(s)) // c+s <= 2^64-1 (the property's domain)
	var code string
	src := verifCase("codesrc")
	if src >= 1 {
		// the code of an arbitrary counter (inside or outside the window) ...
		cc := verifU64("cc")
		code, _ = deriveRFC4226(key, cc, d, alg)
		verifPreferNatural(key, counter, cc, s, d, alg)
		if src == 2 {
			// ... with one character replaced by an arbitrary byte (single-character edits,
			// non-digits, non-ASCII)
			pos := verifInt("editpos")
			verifAssume(verifAnd(pos >= 0, pos < d))
			nb := verifU8("editbyte")
			b := []byte(code)
			for i := range b {
				verifPrefer(verifImplies(i == pos, nb != b[i]))
				b[i] = verifIteU8(i == pos, nb, b[i])
			}
			code = string(b)
		}
	} else {
		code = verifString("code", d+verifCase("dlen"))
	}
	secret := verifSecretFor(key, false)
	p := &Param{Digits: Digits(d), Algorithm: alg, Skew: uint(s), Period: verifUint("period")}
	ok, err := ValidateHOTP(secret, code, counter, p)
	verifObserve("ok", ok)
	verifObserve("errnil", err == nil)

	// spec: exists c' with max(0,c-s) <= c' <= c+s and code == CODE(c')
	want := false
	for k := -s; k <= s; k++ {
		inrange := true
		var cp uint64
		if k < 0 {
			inrange = counter >= uint64(-k)
			cp = counter - uint64(-k)
		} else {
			cp = counter + uint64(k)
		}
		exp, e := deriveRFC4226(key, cp, d, alg)
		want = verifOr(want, verifAnd(inrange, verifAnd(e == nil, verifStrEq(code, exp))))
	}
	if src == 0 {
		// arbitrary bytes: nothing but a window code is ever accepted.  (That every window code
		// IS accepted is decided with codesrc=1, where the string is the code of an arbitrary
		// counter; a model of this direction could only exhibit a coincidence of the
		// uninterpreted code function, which cannot be replayed with the real HMAC.)
		verifAssert(verifImplies(ok, want), "accepted-only-if-code-of-counter-in-window")
	} else {
		verifAssert(ok == want, "accept-iff-code-of-counter-in-window")
	}
	verifAssert(ok == (err == nil), "verdict-and-error-agree")
}

// wrong length, any content: rejected with an error
//
//verif:harness prop=C03 name=length
//verif:cases quick skew=1 digits=6 keylen=10 dlen=-1,1,-6
//verif:cases thorough skew=0,2,10 digits=1,6,10 keylen=10 dlen=-1,1,2
//verif:replace github.com/ja7ad/otp.deriveRFC4226=verifStub_derive
//verif:replace github.com/ja7ad/otp.DecodeSecret=verifStub_DecodeSecret
func verifH_C03_length() {
	s := verifCase("skew")
	d := verifCase("digits")
	n := d + verifCase("dlen")
	if n < 0 {
		n = 0
	}
	alg := Algorithm(verifU8("alg"))
	verifAssume(alg <= 2)
	key := verifBytes("key", verifCase("keylen"))
	counter := verifU64("counter")
	code := verifString("code", n)
	secret := verifSecretFor(key, false)
	ok, err := ValidateHOTP(secret, code, counter, &Param{Digits: Digits(d), Algorithm: alg, Skew: uint(s)})
	verifObserve("ok", ok)
	verifAssert(!ok, "wrong-length-rejected")
	verifAssert(err != nil, "wrong-length-error")
}

// a window above 10 is refused before any derivation
//
//verif:harness prop=C03 name=refuse
//verif:cases quick keylen=10
//verif:replace github.com/ja7ad/otp.deriveRFC4226=verifStub_derive
//verif:replace github.com/ja7ad/otp.DecodeSecret=verifStub_DecodeSecret
func verifH_C03_refuse() {
	skew := verifUint("skew")
	verifAssume(skew > 10)
	key := verifBytes("key", verifCase("keylen"))
	counter := verifU64("counter")
	code := verifString("code", 6)
	secret := verifSecretFor(key, false)
	verifSeenKeys = nil
	ok, err := ValidateHOTP(secret, code, counter, &Param{Digits: 6, Algorithm: Algorithm(verifU8("alg")), Skew: skew})
	verifObserve("ok", ok)
	verifAssert(!ok, "large-window-rejected")
	verifAssert(err != nil, "large-window-error")
	if verifSymbolic() {
		verifAssert(len(verifSeenKeys) == 0, "no-derivation-for-refused-window")
	}
}

// absent parameters mean 6 digits, SHA-1, window 2
//
//verif:harness prop=C03 name=defaults
//verif:cases quick keylen=10 codesrc=0,1
//verif:replace github.com/ja7ad/otp.deriveRFC4226=verifStub_derive
//verif:replace github.com/ja7ad/otp.DecodeSecret=verifStub_DecodeSecret
//verif:opt maxpaths=4000
func verifH_C03_defaults() {
	key := verifBytes("key", verifCase("keylen"))
	counter := verifU64("counter")
	var code string
	if verifCase("codesrc") == 1 {
		code, _ = deriveRFC4226(key, verifU64("cc"), 6, SHA1)
	} else {
		code = verifString("code", 6)
	}
	secret := verifSecretFor(key, false)
	defBefore := *DefaultHOTPParam
	ok1, err1 := ValidateHOTP(secret, code, counter, nil)
	ok2, err2 := ValidateHOTP(secret, code, counter, &Param{Digits: 6, Algorithm: SHA1, Skew: 2})
	verifObserve("ok1", ok1)
	verifAssert(ok1 == ok2, "nil-param-verdict-equals-6-sha1-window2")
	verifAssert((err1 == nil) == (err2 == nil), "nil-param-error-equals")
	verifAssert(*DefaultHOTPParam == defBefore, "default-param-unchanged")
}

// verifPreferNatural states soft constraints for counterexample models: the
// submitted code's counter lies near the window and the (uninterpreted) codes of
// the counters around the window are pairwise distinct, so that the model also
// fails with the real HMAC.  Soft constraints never influence a verdict.
func verifPreferNatural(key []byte, counter, cc uint64, s, d int, alg Algorithm) {
	if !verifSymbolic() {
		return
	}
	r := s + 3
	verifPrefer(cc-counter+uint64(r) <= uint64(2*r))
	var codes []string
	for k := -r; k <= r; k++ {
		c, _ := deriveRFC4226(key, counter+uint64(k), d, alg)
		codes = append(codes, c)
	}
	for i := range codes {
		for j := i + 1; j < len(codes); j++ {
			verifPrefer(!verifStrEq(codes[i], codes[j]))
		}
	}
}

// The verdict depends only on the characters of the submitted code: the very string a
// generation call returned and a copy of it are judged alike (real derivation, so that a code
// string that is a view of reused scratch memory is seen).
//
//verif:harness prop=C03 name=samechars
//verif:cases quick skew=0 digits=6,9
//verif:cases thorough skew=0,1 digits=1,6,8,9,10
//verif:replace github.com/ja7ad/otp.DecodeSecret=verifStub_DecodeSecret
//verif:opt hmac=fresh maxpaths=4000
func verifH_C03_samechars() {
	key := verifBytes("key", 10)
	p := &Param{Digits: Digits(verifCase("digits")), Algorithm: SHA1, Skew: uint(verifCase("skew"))}
	cc, n := verifU64("cc"), verifU64("counter")
	verifAssume(verifAnd(n >= 16, n < 1<<62))
	verifPrefer(verifOr(cc > n+16, cc+16 < n)) // a code from far outside the window
	code, gerr := GenerateHOTP(verifSecretFor(key, false), cc, p)
	verifAssert(gerr == nil, "code-generated")
	if gerr != nil {
		return
	}
	cp := string(append([]byte{}, code...))
	ok1, _ := ValidateHOTP(verifSecretFor(key, false), code, n, p)
	ok2, _ := ValidateHOTP(verifSecretFor(key, false), cp, n, p)
	verifObserve("ok2", ok2)
	verifAssert(ok1 == ok2, "verdict-depends-only-on-the-characters-of-the-code")
	if verifSymbolic() {
		verifAssert(verifResultOwned(code), "generated-code-shares-no-memory-with-pools-or-package-state")
	}
}
