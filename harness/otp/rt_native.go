package otp

// Native twin of rt_sym.go: the same harness functions run against the real
// build of the package, with nondeterministic values taken from a solver model.
// Used only for replaying models (violations and reachability witnesses).

import (
	"crypto/hmac"
	"crypto/rand"
	"fmt"
	"hash"
	"math/big"
	"runtime"
	"sort"
	"strings"
	"time"
	"unsafe"
)

type verifJob struct {
	ID      string            `json:"id"`
	Harness string            `json:"harness"`
	Cases   map[string]int64  `json:"cases"`
	Vars    map[string]uint64 `json:"vars"`
	Digests [][]int           `json:"digests"`
}

type verifJobResult struct {
	ID           string            `json:"id"`
	Failed       []string          `json:"failed"`
	AssumeFailed bool              `json:"assume_failed"`
	Panic        string            `json:"panic"`
	Observes     map[string]string `json:"observes"`
	Asserts      int               `json:"asserts"`
	AssumeSite   string            `json:"assume_site"`
	Timeout      bool              `json:"timeout"`
}

type verifHmacRec struct {
	alg    int
	key    []byte
	msg    []byte
	digest []byte
	sums   int
	inner  hash.Hash
}

var (
	verifCur        *verifJob
	verifRes        *verifJobResult
	verifSeq        map[string]int
	verifHmacs      []*verifHmacRec
	verifUseDigests bool
	verifOrigNew    [3]func(key []byte) hash.Hash
	verifInstalled  bool
	verifRandCount  int
)

var verifPoisonRound int

type verifAssumeFailed struct{}

func (r *verifHmacRec) Write(p []byte) (int, error) {
	r.msg = append(r.msg, p...)
	return r.inner.Write(p)
}
func (r *verifHmacRec) Sum(b []byte) []byte {
	r.sums++
	if r.digest == nil {
		r.digest = r.inner.Sum(nil)
	}
	return append(b, r.digest...)
}
func (r *verifHmacRec) Reset()         { r.msg = nil; r.digest = nil; r.inner.Reset() }
func (r *verifHmacRec) Size() int      { return r.inner.Size() }
func (r *verifHmacRec) BlockSize() int { return r.inner.BlockSize() }

var _ = hmac.New

func verifRunJob(j *verifJob, table map[string]func()) (res *verifJobResult) {
	verifInstall()
	verifCur = j
	verifRes = &verifJobResult{ID: j.ID, Observes: map[string]string{}}
	res = verifRes
	verifSeq = map[string]int{}
	verifHmacs = nil
	verifUseDigests = false
	verifRandCount = 0
	verifNativeReset()
	f := table[j.Harness]
	if f == nil {
		res.Panic = "no such harness: " + j.Harness
		return
	}
	defer func() {
		if r := recover(); r != nil {
			if _, ok := r.(verifAssumeFailed); ok {
				res.AssumeFailed = true
				return
			}
			res.Panic = fmt.Sprint(r)
		}
	}()
	f()
	return
}

func verifNext(base string) uint64 {
	verifSeq[base]++
	name := base
	if verifSeq[base] > 1 {
		name = fmt.Sprintf("%s#%d", base, verifSeq[base])
	}
	return verifCur.Vars[name]
}

func verifU8(name string) uint8                { return uint8(verifNext(name)) }
func verifU16(name string) uint16              { return uint16(verifNext(name)) }
func verifU32(name string) uint32              { return uint32(verifNext(name)) }
func verifU64(name string) uint64              { return verifNext(name) }
func verifUint(name string) uint               { return uint(verifNext(name)) }
func verifInt(name string) int                 { return int(verifNext(name)) }
func verifI64(name string) int64               { return int64(verifNext(name)) }
func verifBool(name string) bool               { return verifNext(name) != 0 }
func verifCase(name string) int                { return int(verifCur.Cases[name]) }
func verifSymbolic() bool                      { return false }
func verifReach(name string)                   {}
func verifBeginOp()                            {}
func verifEndOp()                              {}
func verifProtect(v any)                       {}
func verifPoolAdversary(on bool) {
	if !on || verifCur == nil {
		return
	}
	// the adversary of C11: takes the pooled OCRA buffer, scribbles on it, leaves it with the
	// model's length and puts it back, so that the next Get (same goroutine) receives it
	n := int(verifCur.Vars["pool_len"])
	verifPoisonRound++
	pat := byte(0xA5)
	if verifPoisonRound%2 == 0 {
		pat = 0x5A
	}
	verifPoisonOCRAPool(n, pat)
	verifPoisonHOTPPool()
}
func verifTraceOn(on bool)                     {}
func verifFrameViolations() int                { return 0 }
func verifUseModelDigests()                    { verifUseDigests = true }
func verifAnd(a, b bool) bool                  { return a && b }
func verifOr(a, b bool) bool                   { return a || b }
func verifImplies(a, b bool) bool              { return !a || b }
func verifStrEq(a, b string) bool              { return a == b }
func verifBytesEq(a, b []byte) bool            { return string(a) == string(b) }
func verifDependsOn(v any, prefix string) bool { return false }
func verifAliases(a, b any) bool               { return false }

func verifBytes(name string, n int) []byte {
	b := make([]byte, n)
	for i := range b {
		b[i] = byte(verifNext(fmt.Sprintf("%s[%d]", name, i)))
	}
	return b
}

func verifString(name string, n int) string { return string(verifBytes(name, n)) }

func verifAssume(c bool) {
	if !c {
		_, file, line, _ := runtime.Caller(1)
		verifRes.Panic = ""
		verifRes.AssumeSite = fmt.Sprintf("%s:%d", file, line)
		panic(verifAssumeFailed{})
	}
}

func verifAssert(c bool, name string) {
	verifRes.Asserts++
	if !c {
		verifRes.Failed = append(verifRes.Failed, name)
	}
}

func verifFail(name string) { verifAssert(false, name) }

func verifIteU64(c bool, a, b uint64) uint64 {
	if c {
		return a
	}
	return b
}
func verifIteInt(c bool, a, b int) int {
	if c {
		return a
	}
	return b
}
func verifIteU8(c bool, a, b uint8) uint8 {
	if c {
		return a
	}
	return b
}

func verifPanics(f func()) (p bool) {
	defer func() {
		if r := recover(); r != nil {
			if _, ok := r.(verifAssumeFailed); ok {
				panic(r)
			}
			p = true
		}
	}()
	f()
	return false
}

func verifHMACCount() int { return len(verifHmacs) }
func verifHMACAlg(i int) int {
	return verifHmacs[i].alg
}
func verifHMACKey(i int) []byte { return verifHmacs[i].key }
func verifHMACMsg(i int) []byte { return verifHmacs[i].msg }
func verifHMACSums(i int) int   { return verifHmacs[i].sums }
func verifHMACDigest(i int) []byte {
	r := verifHmacs[i]
	if r.digest == nil {
		r.digest = r.inner.Sum(nil)
	}
	return r.digest
}

func verifMul128Le(a, b, c uint64) bool {
	// a*b <= c without wrap
	if a == 0 || b == 0 {
		return true
	}
	if a > ^uint64(0)/b {
		return false
	}
	return a*b <= c
}

func verifErrInfo(err error) int {
	if err == nil {
		return 0
	}
	return 1
}

func verifRender(v any) string {
	switch x := v.(type) {
	case nil:
		return "<nil>"
	case error:
		return "<opaque>"
	case string:
		var sb strings.Builder
		for i := 0; i < len(x); i++ {
			fmt.Fprintf(&sb, "%d,", x[i])
		}
		return "str[" + sb.String() + "]"
	case []byte:
		var sb strings.Builder
		for i := 0; i < len(x); i++ {
			fmt.Fprintf(&sb, "%d,", x[i])
		}
		return "slice[" + sb.String() + "]"
	case []string:
		var parts []string
		for _, s := range x {
			parts = append(parts, verifRender(s))
		}
		return "slice[" + strings.Join(parts, ",") + ",]"
	case bool:
		return fmt.Sprint(x)
	case int:
		return fmt.Sprint(uint64(x))
	case int64:
		return fmt.Sprint(uint64(x))
	case int32:
		return fmt.Sprint(uint32(x))
	case uint, uint8, uint16, uint32, uint64:
		return fmt.Sprint(x)
	case Digits:
		return fmt.Sprint(uint8(x))
	case Algorithm:
		return fmt.Sprint(uint8(x))
	}
	return fmt.Sprintf("<%T>", v)
}

func verifObserve(name string, v any) {
	verifRes.Observes[name] = verifRender(v)
}

func verifSortedKeys(m map[string]string) []string {
	var ks []string
	for k := range m {
		ks = append(ks, k)
	}
	sort.Strings(ks)
	return ks
}

type verifRandReader struct{}

var verifRandStreams [][]byte

func (verifRandReader) Read(p []byte) (int, error) {
	verifRandCount++
	n := len(p)
	// a model with rand_n comes from a run in which the code called Reader.Read directly: the
	// substituted stream then delivers a short read, as io.Reader allows
	if _, ok := verifCur.Vars["rand_n"]; ok && len(p) > 0 {
		if k := int(verifNext("rand_n")); k >= 1 && k < n {
			n = k
		}
	}
	for i := 0; i < len(p); i++ {
		b := byte(verifNext(fmt.Sprintf("rand_%d", i)))
		if i < n {
			p[i] = b
		}
	}
	verifRandStreams = append(verifRandStreams, append([]byte{}, p[:n]...))
	return n, nil
}

func verifRandStream(i int) []byte { return verifRandStreams[i] }

func verifNativeReset() {
	rand.Reader = verifRandReader{}
	verifRandStreams = nil
}
func verifRandMayFail(on bool) {}
func verifRandCalls() int      { return verifRandCount }

func verifUF(name string, n int, key []byte, a, b, c uint64) []byte {
	panic("verifUF is symbolic-only (contract stubs are not used natively)")
}

func verifAssertBytesEq(a, b []byte, name string) {
	verifAssert(len(a) == len(b), name+"/len")
	if len(a) != len(b) {
		return
	}
	for i := range a {
		verifAssert(a[i] == b[i], fmt.Sprintf("%s[%d]", name, i))
	}
}

func verifPrefer(c bool) {}

var verifFixedZone = time.FixedZone("verif", 3*3600+1800)

// verifTime rebuilds the instant of a model, including a monotonic reading
// (which only time.Now can produce through the public API) by writing the
// representation directly.
func verifTime(name string) time.Time { return verifTimeAt(name, -1, -1<<63) }

func verifTimeAt(name string, loc int, secGiven int64) time.Time {
	sec := int64(verifNext(name + ".sec"))
	if secGiven != -1<<63 {
		sec = secGiven
	}
	nsec := int64(verifNext(name + ".nsec"))
	mono := verifNext(name+".mono") != 0
	monoread := int64(verifNext(name + ".monoread"))
	locSel := verifNext(name + ".loc")
	t := time.Unix(sec, nsec)
	switch locSel {
	case 0:
		t = t.UTC()
	case 2:
		t = t.In(verifFixedZone)
	}
	if mono {
		type rep struct {
			wall uint64
			ext  int64
			loc  *time.Location
		}
		r := (*rep)(unsafe.Pointer(&t))
		r.wall = 1<<63 | uint64(sec+2682288000)<<30 | uint64(nsec)
		r.ext = monoread
	}
	return t
}

func verifTimeIn(name string, loc int) time.Time { return verifTime(name) }

func verifSkipCase() { panic(verifAssumeFailed{}) }

func verifDependsOnExact(v any, name string) bool { return false }

func verifBytesSym(name string, max, spare int) []byte {
	n := int(verifNext(name + ".len"))
	b := make([]byte, max+spare)
	for i := range b {
		b[i] = byte(verifNext(fmt.Sprintf("%s[%d]", name, i)))
	}
	if n > max {
		n = max
	}
	return b[:n]
}

// verifByteAt reads the backing array at index i regardless of len (i < cap), 0 outside.
func verifByteAt(b []byte, i int) byte {
	if i < 0 || i >= cap(b) {
		return 0
	}
	return b[:cap(b)][i]
}

func verifResultOwned(v any) bool { return true }

func verifTraceLeaks(prefix string) int { return 0 }
func verifTraceClass(class string)      {}

func verifBigHexDigits() []byte { return nil }

// the decimal text (left-padded with zeros to declen digits) of the number with the given hex digits
func verifDecimalOf(hex []byte, declen int) string {
	v, ok := new(big.Int).SetString(string(hex), 16)
	if !ok {
		panic(verifAssumeFailed{})
	}
	d := v.Text(10)
	if len(d) > declen {
		panic(verifAssumeFailed{})
	}
	return strings.Repeat("0", declen-len(d)) + d
}

func verifIteI64(c bool, a, b int64) int64 {
	if c {
		return a
	}
	return b
}

func verifUFv(name string, n int, bytes []byte, nums ...uint64) []byte {
	panic("verifUFv is symbolic-only (contract stubs are not used natively)")
}
