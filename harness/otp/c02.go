package otp

import "time"

// C02 — TOTP code = HOTP code at floor(unix/period), consistent defaults.

var (
	verifSeenCounters []uint64
	verifSeenDigits   []int
	verifSeenAlgs     []Algorithm
)

// contract stub of deriveRFC4226 that also records the call
func verifStub_deriveRec(secret []byte, counter uint64, digits int, algo Algorithm) (string, error) {
	verifSeenCounters = append(verifSeenCounters, counter)
	verifSeenDigits = append(verifSeenDigits, digits)
	verifSeenAlgs = append(verifSeenAlgs, algo)
	return verifStub_derive(secret, counter, digits, algo)
}

func verifResetSeen() {
	verifSeenCounters, verifSeenDigits, verifSeenAlgs, verifSeenKeys = nil, nil, nil, nil
}

// the counter handed to the derivation is floor(u/p): n*p <= u < (n+1)*p, no wrap
func verifIsFloor(n, p, u uint64) bool {
	return verifAnd(verifMul128Le(n, p, u), verifAnd(n < ^uint64(0), !verifMul128Le(n+1, p, u)))
}

//verif:harness prop=C02 name=floor
//verif:cases quick keylen=10 nilparam=0,1 loc=0
//verif:cases thorough keylen=0,20 nilparam=0,1 loc=0..2
//verif:replace github.com/ja7ad/otp.deriveRFC4226=verifStub_deriveRec
//verif:replace github.com/ja7ad/otp.DecodeSecret=verifStub_DecodeSecret
func verifH_C02_floor() {
	key := verifBytes("key", verifCase("keylen"))
	t := verifTimeIn("t", verifCase("loc"))
	u := t.Unix() // the std library's own computation is the definition of "unix seconds"
	verifAssume(verifAnd(u >= 0, u < 1<<62))
	period := verifUint("period")
	verifAssume(period <= 1<<32)
	d := verifU8("digits")
	alg := verifU8("alg")
	var p *Param
	wp, wd, wa := uint64(period), int(d), Algorithm(alg)
	if verifCase("nilparam") == 1 {
		wp, wd, wa = 30, 6, SHA1
	} else {
		p = &Param{Digits: Digits(d), Algorithm: Algorithm(alg), Period: period, Skew: verifUint("skew")}
	}
	if wp == 0 {
		wp = 30 // documented: a zero period means 30 s
	}
	secret := verifSecretFor(key, false)
	verifResetSeen()
	defBefore := *DefaultTOTPParam
	var code string
	var err error
	panicked := verifPanics(func() { code, err = GenerateTOTP(secret, t, p) })
	verifObserve("panicked", panicked)
	verifAssert(!panicked, "no-panic")
	if panicked {
		return
	}
	verifObserve("code", code)
	verifAssert(*DefaultTOTPParam == defBefore, "default-param-unchanged")
	wcode, werr := deriveRFC4226(key, 0, wd, wa) // only for the error/ok outcome of these digits/hash
	_ = wcode
	verifAssert((err == nil) == (werr == nil), "error-iff-unsupported-parameters")
	if verifSymbolic() {
		verifAssert(len(verifSeenCounters) == 2, "one-derivation") // +1 for the spec call above
		if len(verifSeenCounters) != 2 {
			return
		}
		n := verifSeenCounters[0]
		verifAssert(verifIsFloor(n, wp, uint64(u)), "counter-is-floor-of-unix-over-period")
		verifAssert(verifSeenDigits[0] == wd, "digits-of-param")
		verifAssert(verifSeenAlgs[0] == wa, "hash-of-param")
		verifAssertBytesEq(verifSeenKeys[0], key, "key-is-decoded-secret")
		exp, _ := verifStub_derive(key, n, wd, wa)
		verifAssert(verifStrEq(code, exp), "code-is-hotp-code-of-that-counter")
	} else if err == nil {
		// native twin of the same statement, with the real functions
		n := uint64(u) / wp
		exp, _ := deriveRFC4226(key, n, wd, wa)
		verifAssert(code == exp, "code-is-hotp-code-of-that-counter")
	}
}

// Two instants with the same Unix second but different nanoseconds, monotonic
// reading or location give the same derivation, hence the same code.
//
//verif:harness prop=C02 name=independence
//verif:cases quick keylen=10 period=1,30
//verif:cases thorough keylen=10 period=1,30,-1
//verif:replace github.com/ja7ad/otp.deriveRFC4226=verifStub_deriveRec
//verif:replace github.com/ja7ad/otp.DecodeSecret=verifStub_DecodeSecret
func verifH_C02_independence() {
	key := verifBytes("key", verifCase("keylen"))
	sec := verifI64("sec")
	verifAssume(verifAnd(sec >= 0, sec < 1<<62))
	t1 := verifTimeAt("t1", -1, sec)
	t2 := verifTimeAt("t2", -1, sec)
	verifAssume(t1.Unix() == sec)
	verifAssume(t2.Unix() == sec)
	period := uint(verifCase("period"))
	if verifCase("period") < 0 { // every period (harder for the solvers: thorough tier)
		period = verifUint("period")
		verifAssume(period <= 1<<32)
	}
	p := &Param{Digits: 6, Algorithm: SHA1, Period: period}
	secret := verifSecretFor(key, false)
	verifResetSeen()
	c1, e1 := GenerateTOTP(secret, t1, p)
	c2, e2 := GenerateTOTP(secret, t2, p)
	verifObserve("same", c1 == c2)
	verifAssert(e1 == nil, "no-error-1")
	verifAssert(e2 == nil, "no-error-2")
	if verifSymbolic() {
		verifAssert(len(verifSeenCounters) == 2, "two-derivations")
		if len(verifSeenCounters) != 2 {
			return
		}
		verifAssert(verifSeenCounters[0] == verifSeenCounters[1], "same-unix-second-same-step")
	}
	verifAssert(verifStrEq(c1, c2), "same-unix-second-same-code")
}

// For fixed periods: the step is constant inside a period and changes exactly when
// the Unix second reaches a multiple of the period.
//
//verif:harness prop=C02 name=boundary
//verif:cases quick keylen=10 period=1,30,3600
//verif:cases thorough keylen=10 period=1,2,30,3600,4294967296
//verif:replace github.com/ja7ad/otp.deriveRFC4226=verifStub_deriveRec
//verif:replace github.com/ja7ad/otp.DecodeSecret=verifStub_DecodeSecret
func verifH_C02_boundary() {
	key := verifBytes("key", verifCase("keylen"))
	period := uint(verifCase("period"))
	sec := verifI64("sec")
	verifAssume(verifAnd(sec >= 0, sec < 1<<62-1))
	t1 := verifTimeAt("t1", 10, sec) // wall-clock representation; other representations: harness independence
	t2 := verifTimeAt("t2", 10, sec+1)
	verifAssume(t1.Unix() == sec)
	verifAssume(t2.Unix() == sec+1)
	p := &Param{Digits: 6, Algorithm: SHA1, Period: period}
	secret := verifSecretFor(key, false)
	verifResetSeen()
	c1, _ := GenerateTOTP(secret, t1, p)
	c2, _ := GenerateTOTP(secret, t2, p)
	verifObserve("same", c1 == c2)
	if verifSymbolic() {
		verifAssert(len(verifSeenCounters) == 2, "two-derivations")
		if len(verifSeenCounters) != 2 {
			return
		}
		n1, n2 := verifSeenCounters[0], verifSeenCounters[1]
		atBoundary := uint64(sec+1)%uint64(period) == 0
		verifAssert(verifImplies(atBoundary, n2 == n1+1), "step-advances-at-boundary")
		verifAssert(verifImplies(!atBoundary, n2 == n1), "step-constant-inside-period")
		verifAssert(verifImplies(!atBoundary, verifStrEq(c1, c2)), "code-constant-inside-period")
	} else {
		atBoundary := uint64(sec+1)%uint64(period) == 0
		verifAssert(atBoundary || c1 == c2, "code-constant-inside-period")
	}
}

var _ = time.Unix
