package otp

import (
	"net/url"
	"strings"
	"time"
)

// C13 — validation verdicts are unambiguous; errors never leak secret or expected code.

// (true,nil) or (false,err) for every failure cause: wrong code, wrong length, bad secret,
// bad hash, bad digits, bad skew (OCRA: harness C06/iff and C06/invalid assert the same pair).
//
//verif:harness prop=C13 name=verdict
//verif:cases quick which=0,1 skew=0,1,11 dlen=-1,0,1 keylen=0,10
//verif:cases thorough which=0,1 skew=0,1,2,10,11 dlen=-1,0,1 keylen=0,1,10,64
//verif:replace github.com/ja7ad/otp.deriveRFC4226=verifStub_derive
//verif:replace github.com/ja7ad/otp.DecodeSecret=verifStub_DecodeSecret
//verif:opt maxpaths=4000 unwind=100
func verifH_C13_verdict() {
	d := verifU8("digits")
	alg := verifU8("alg")
	skew := uint(verifCase("skew"))
	if skew > 10 {
		skew = verifUint("skew")
		verifAssume(skew > 10)
	}
	key := verifBytes("key", verifCase("keylen")) // including the empty key (secret "" or white space only)
	secret := verifSecretFor(key, verifBool("decode_fails"))
	n := int(d) + verifCase("dlen")
	if n < 0 {
		n = 0
	}
	verifAssume(d <= 12) // keeps the code string short; 11,12 are unsupported lengths
	code := verifString("code", verifSmallLen(n))
	p := &Param{Digits: Digits(d), Algorithm: Algorithm(alg), Skew: skew, Period: verifUint("period")}
	var ok bool
	var err error
	if verifCase("which") == 0 {
		ok, err = ValidateHOTP(secret, code, verifU64("counter"), p)
	} else {
		ok, err = ValidateTOTP(secret, code, verifTimeIn("t", 10), p)
	}
	verifObserve("ok", ok)
	verifObserve("errnil", err == nil)
	verifAssert(verifOr(verifAnd(ok, err == nil), verifAnd(!ok, err != nil)), "true-nil-or-false-error")
}

// the same pair for OCRA validation: usable and unusable suites (code lengths -1, 0, 3, 11 are read
// before the suite is checked), arbitrary inputs, codes of the expected length +-1 and the empty code
//
//verif:harness prop=C13 name=verdictocra
//verif:cases quick digits=-1,0,6,11 dlen=-1,0,1 flags=2,31
//verif:cases thorough digits=-1,0,3,4,6,10,11 dlen=-1,0,1 flags=0,2,3,31
//verif:replace github.com/ja7ad/otp.DecodeSecret=verifStub_DecodeSecret
//verif:opt hmac=fresh unwind=1000 maxpaths=3000
func verifH_C13_verdictocra() {
	digits := verifCase("digits")
	cfg := verifFlagsConfig(verifCase("flags"), 20, int(verifU8("hash")%4), digits, 1, 1)
	in := verifSymInput(0)
	key := verifBytes("key", 10)
	secret := verifSecretFor(key, verifBool("decode_fails"))
	n := digits + verifCase("dlen")
	if n < 0 {
		n = 0
	}
	code := verifString("code", n)
	var ok bool
	var err error
	pan := verifPanics(func() { ok, err = ValidateOCRA(secret, code, cfg, in) })
	verifObserve("ok", ok)
	verifAssert(!pan, "no-panic")
	verifAssert(verifOr(verifAnd(ok, err == nil), verifAnd(!ok, err != nil)), "true-nil-or-false-error")
}

// verifSmallLen makes a symbolic small length concrete by case split (0..13)
func verifSmallLen(n int) int {
	for k := 0; k < 13; k++ {
		if n == k {
			return k
		}
	}
	return 13
}

// Errors do not depend on the key (raw or as base32 text) nor on any digest-derived value.
//
//verif:harness prop=C13 name=disclosure
//verif:cases quick op=0..5 dlen=0,1 digits=6,11
//verif:cases thorough op=0..5 dlen=-1,0,1 digits=1,6,8,9,10,11,0
//verif:opt hmac=fresh maxpaths=4000 unwind=400
func verifH_C13_disclosure() {
	key := verifBytes("key", 5)
	secret := verifEnc32(key) // real text through the real decoder
	d := uint8(verifCase("digits"))
	alg := verifU8("alg")
	n := verifSmallLen(int(d) + verifCase("dlen"))
	code := verifString("code", n)
	p := &Param{Digits: Digits(d), Algorithm: Algorithm(alg), Skew: 0, Period: 30}
	t := verifTimeIn("t", 10)
	cfg := SuiteConfig{Raw: "OCRA-1:HOTP-SHA1-6:QN08", Hash: Algorithm(alg), Digits: int(d), Challenge: ChallengeNumeric08, IncludeChallenge: true}
	in := OCRAInput{Challenge: verifBytesSym("in.Q", 12, 0)}
	var err error
	var out string
	counter := verifU64("counter")
	switch verifCase("op") {
	case 0:
		out, err = GenerateHOTP(secret, counter, p)
	case 1:
		_, err = ValidateHOTP(secret, code, counter, p)
	case 2:
		out, err = GenerateTOTP(secret, t, p)
	case 3:
		_, err = ValidateTOTP(secret, code, t, p)
	case 4:
		out, err = GenerateOCRA(secret, cfg, in)
	case 5:
		_, err = ValidateOCRA(secret, code, cfg, in)
	}
	verifObserve("errnil", err == nil)
	if err == nil {
		return
	}
	verifAssert(out == "", "no-result-with-error")
	if verifSymbolic() {
		verifAssert(!verifDependsOn(err, "key"), "error-independent-of-secret")
		verifAssert(!verifDependsOn(err, "hmac"), "error-independent-of-digest-and-expected-code")
	} else {
		// native twin (replay): the text of the error contains neither the secret nor the code that
		// would have been accepted
		msg := err.Error()
		verifAssert(!strings.Contains(msg, secret), "error-independent-of-secret")
		exp := ""
		switch verifCase("op") {
		case 1:
			exp, _ = GenerateHOTP(secret, counter, p)
		case 3:
			exp, _ = GenerateTOTP(secret, t, p)
		case 5:
			exp, _ = GenerateOCRA(secret, cfg, in)
		}
		verifAssert(len(exp) < 6 || !strings.Contains(msg, exp), "error-independent-of-digest-and-expected-code")
	}
}

// Undecodable secret text: the error may carry a position, never a byte of the text.
//
//verif:harness prop=C13 name=badsecret
//verif:cases quick op=0,3,5 len=3,5
//verif:cases thorough op=0..5 len=1,3,5,8,9
//verif:opt hmac=fresh maxpaths=4000 unwind=400
func verifH_C13_badsecret() {
	L := verifCase("len")
	tb := verifBytes("text", L)
	for _, c := range tb {
		verifAssume(verifAnd(c < 0x80, verifAnd(c != '\r', c != '\n')))
	}
	secret := string(tb)
	p := &Param{Digits: 6, Algorithm: SHA1, Skew: 0, Period: 30}
	code := verifString("code", 6)
	t := verifTimeIn("t", 10)
	cfg := SuiteConfig{Raw: "OCRA-1:HOTP-SHA1-6:QN08", Hash: SHA1, Digits: 6, Challenge: ChallengeNumeric08, IncludeChallenge: true}
	in := OCRAInput{Challenge: verifBytes("q", 8)}
	var err error
	switch verifCase("op") {
	case 0:
		_, err = GenerateHOTP(secret, 1, p)
	case 1:
		_, err = ValidateHOTP(secret, code, 1, p)
	case 2:
		_, err = GenerateTOTP(secret, t, p)
	case 3:
		_, err = ValidateTOTP(secret, code, t, p)
	case 4:
		_, err = GenerateOCRA(secret, cfg, in)
	case 5:
		_, err = ValidateOCRA(secret, code, cfg, in)
	}
	verifObserve("errnil", err == nil)
	if err == nil {
		return
	}
	if verifSymbolic() {
		verifAssert(!verifDependsOn(err, "text"), "error-carries-no-byte-of-the-secret-text")
	}
}

// Every other operation that is handed a secret and fails: parsing an otpauth URL (every refusal
// cause), building one (missing issuer / account), random-secret generation for an unknown hash.
//
//verif:harness prop=C13 name=urlerrors
//verif:cases quick which=0..9
//verif:opt maxpaths=4000 unwind=400
func verifH_C13_urlerrors() {
	key := verifBytes("key", 10)
	secret := verifEnc32(key)
	which := verifCase("which")
	var err error
	if which >= 7 {
		in := URLParam{Issuer: "Example", AccountName: "alice", Secret: secret, Digits: 6, Period: 30}
		switch which {
		case 7:
			in.Issuer = ""
			_, err = GenerateTOTPURL(in)
		case 8:
			in.AccountName = ""
			_, err = GenerateHOTPURL(in)
		case 9:
			var out string
			out, err = RandomSecret(Algorithm(3 + verifU8("alg")%250))
			verifAssert(out == "", "no-result-with-error")
		}
	} else {
		q := url.Values{}
		q.Set("secret", secret)
		u := &url.URL{Scheme: "otpauth", Host: "totp", Path: "/Example:alice", RawQuery: q.Encode()}
		switch which {
		case 0: // label without a colon
			u.Path = "/alice@example.com"
		case 1: // other scheme
			u.Scheme = "https"
		case 2: // other type
			u.Host = "motp"
		case 3: // unknown algorithm
			q.Set("algorithm", "MD5")
			u.RawQuery = q.Encode()
		case 4: // digits that are not a number
			q.Set("digits", "six")
			u.RawQuery = q.Encode()
		case 5: // period that is not a number
			q.Set("period", "-1")
			u.RawQuery = q.Encode()
		case 6: // empty label
			u.Path = "/"
		}
		var p *URLParam
		p, err = ParseOTPAuthURL(u)
		verifAssert(err == nil || p == nil, "no-result-with-error")
	}
	verifObserve("errnil", err == nil)
	if err == nil {
		return
	}
	if verifSymbolic() {
		verifAssert(!verifDependsOn(err, "key"), "error-independent-of-secret")
	} else {
		verifAssert(!strings.Contains(err.Error(), secret), "error-independent-of-secret")
	}
}

var _ = time.Unix
