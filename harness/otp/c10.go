package otp

import "time"

// C10 — no public operation panics; bad arguments are reported as errors.
// Every harness wraps the call in verifPanics (a feasible panic path = violation); loops
// are bounded by the unwinding assertion (unwind_is_violation).

// total-function contract of deriveRFC4226 (established by harness "derive" below for all arguments)
func verifStub_deriveTotal(secret []byte, counter uint64, digits int, algo Algorithm) (string, error) {
	return verifStub_derive(secret, counter, digits, algo)
}

func verifSymParam(allowNil bool) *Param {
	if allowNil && verifBool("param.nil") {
		return nil
	}
	return &Param{Digits: Digits(verifU8("param.digits")), Algorithm: Algorithm(verifU8("param.alg")), Period: verifUint("param.period"), Skew: verifUint("param.skew")}
}

func verifASCII(name string, n int) string {
	b := verifBytes(name, n)
	for _, c := range b {
		verifAssume(c < 0x80)
	}
	return string(b)
}

// deriveRFC4226 for every counter, every int digits, every hash byte, keys of several lengths
//
//verif:harness prop=C10 name=derive
//verif:cases quick keylen=0,20 
//verif:cases thorough keylen=0,1,20,64,65,129
//verif:opt hmac=fresh unwind=40 unwind_is_violation=1
func verifH_C10_derive() {
	key := verifBytes("key", verifCase("keylen"))
	digits := verifInt("digits")
	alg := verifU8("alg")
	counter := verifU64("counter")
	var code string
	var err error
	p := verifPanics(func() { code, err = deriveRFC4226(key, counter, digits, Algorithm(alg)) })
	verifObserve("panicked", p)
	verifAssert(!p, "no-panic")
	verifAssert(verifImplies(err != nil, code == ""), "error-or-code")
}

// HOTP / TOTP entry points: nil or arbitrary Param, arbitrary ASCII secret and code text, any counter / instant
//
//verif:harness prop=C10 name=rfc4226api
//verif:cases quick op=0..3 clen=0,6 maxskew=2
//verif:cases thorough op=0..3 clen=0,1,6,10,11 maxskew=10
//verif:replace github.com/ja7ad/otp.deriveRFC4226=verifStub_deriveTotal
//verif:replace github.com/ja7ad/otp.DecodeSecret=verifStub_DecodeSecret
//verif:opt unwind=600 unwind_is_violation=1 maxpaths=6000
func verifH_C10_rfc4226api() {
	// DecodeSecret by its total contract (any key of any length or an error; its own freedom
	// from panics on arbitrary text is harness "helpers" op 0)
	secret := verifSecretFor(verifBytes("key", 3), verifBool("decode_fails"))
	code := verifString("code", verifCase("clen"))
	p := verifSymParam(true)
	if p != nil {
		// windows maxskew+1 .. 10 are left to the thorough tier (every refused value > 10 is included)
		verifAssume(verifOr(p.Skew <= uint(verifCase("maxskew")), p.Skew > 10))
	}
	counter := verifU64("counter")
	t := verifTime("t")
	var err error
	var ok bool
	var out string
	pan := verifPanics(func() {
		switch verifCase("op") {
		case 0:
			out, err = GenerateHOTP(secret, counter, p)
		case 1:
			ok, err = ValidateHOTP(secret, code, counter, p)
		case 2:
			out, err = GenerateTOTP(secret, t, p)
		case 3:
			ok, err = ValidateTOTP(secret, code, t, p)
		}
	})
	verifObserve("panicked", pan)
	verifAssert(!pan, "no-panic")
	verifAssert(verifImplies(err != nil, verifAnd(out == "", !ok)), "error-means-no-result")
}

// OCRA entry points with arbitrary configurations (hash / digits per case incl. extremes) and inputs
//
//verif:harness prop=C10 name=ocra
//verif:cases quick op=0,1 hash=0,3 digits=-1,6,11 wrap=0 nilmask=0,31
//verif:cases thorough op=0,1 hash=0,2,3,255 digits=-9223372036854775808,-1,0,3,4,10,11,9223372036854775807 wrap=0,1 nilmask=0,31
//verif:replace github.com/ja7ad/otp.DecodeSecret=verifStub_DecodeSecret
//verif:opt hmac=fresh unwind=600 unwind_is_violation=1 maxpaths=6000
func verifH_C10_ocra() {
	cfg := verifSymConfig(3)
	cfg.Hash = Algorithm(verifCase("hash"))
	cfg.Digits = verifCase("digits")
	in := verifSymInput(verifCase("nilmask"))
	key := verifBytes("key", 10)
	secret := verifSecretFor(key, verifBool("decode_fails"))
	var s Suite = cfg
	if verifCase("wrap") == 1 {
		s = RawSuite{SuiteConfig: cfg}
	}
	code := verifString("code", 6)
	var err error
	pan := verifPanics(func() {
		if verifCase("op") == 0 {
			_, err = GenerateOCRA(secret, s, in)
		} else {
			_, err = ValidateOCRA(secret, code, s, in)
		}
	})
	verifObserve("panicked", pan)
	verifAssert(!pan, "no-panic")
	_ = err
}

// small pure helpers with arbitrary arguments
//
//verif:harness prop=C10 name=helpers
//verif:cases quick op=0..13 len=0,3
//verif:cases thorough op=0..13 len=0,1,3,5
//verif:opt unwind=600 unwind_is_violation=1 maxpaths=8000
func verifH_C10_helpers() {
	L := verifCase("len")
	s := verifASCII("s", L)
	pan := verifPanics(func() {
		switch verifCase("op") {
		case 0:
			_, _ = DecodeSecret(verifASCII("s2", L+L/2))
		case 1:
			_ = DigitsFromStr(s)
			_ = Digits(verifU8("d")).Int()
		case 2:
			_ = AlgorithmFromStr(s)
			_ = Algorithm(verifU8("a")).String()
		case 3:
			_, _ = RandomSecret(Algorithm(verifU8("a")))
		case 4:
			_, _ = ParseDecimalToBigEndian8(s)
			_, _ = ParseDecimal64BigEndian(s)
		case 5:
			w := verifInt("w")
			verifAssume(verifAnd(w >= 0, w <= 40)) // stated bound (property: 0..2^20)
			_ = LeftPadHex(s, w)
		case 6:
			_ = LeftPadHex(s, 1<<20)
		case 7:
			_, _ = ParseHexTimestamp(verifASCII("ts", L*6))
		case 8:
			_ = To8ByteBigEndian(verifU64("v"))
		case 9:
			_, _ = HexInputToOCRA(s, verifASCII("q", L), verifASCII("p", 2), verifASCII("si", 1), verifASCII("ts", L))
		case 10:
			_ = IsKnownSuite(s)
			_ = SuiteConfigFromRaws(s)
			_ = ListSuites()
		case 11:
			_, _ = NewSuite(verifSymConfig(L))
		case 12:
			c := verifSymConfig(L)
			_, _, _ = c.Config(), c.String(), c.Validate()
			r := RawSuite{SuiteConfig: c}
			_, _, _ = r.Config(), r.String(), r.Validate()
			_ = verifSymInput(0).Validate(c)
		case 13:
			_, _ = NewRawSuite(s)
		}
	})
	verifObserve("panicked", pan)
	verifAssert(!pan, "no-panic")
}

var _ = time.Unix

// the decimal question helper for numbers of every size, stated by their hexadecimal digits:
// short of, exactly at and beyond the 128 bytes of the RFC 6287 question field (beyond: 309 and
// more decimal digits)
//
//verif:harness prop=C10 name=question
//verif:cases quick hexlen=1,255,256,257,300 declen=400
//verif:cases thorough hexlen=1,2,127,128,255,256,257,258,300,332 declen=400
//verif:opt unwind=600 unwind_is_violation=1 maxpaths=2000
func verifH_C10_question() {
	h := verifCase("hexlen")
	x := verifBytes("hex", h)
	for i, c := range x {
		verifAssume(verifOr(verifAnd(c >= '0', c <= '9'), verifAnd(c >= 'a', c <= 'f')))
		if i == 0 && h > 1 {
			verifAssume(c != '0')
		}
	}
	s := verifDecimalOf(x, verifCase("declen"))
	pan := verifPanics(func() { _, _ = ParseDecimalChallengeRFC6287(s) })
	verifObserve("panicked", pan)
	verifAssert(!pan, "no-panic")
}
