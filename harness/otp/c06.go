package otp

// C06 — OCRA validation accepts a string iff generation returns it for the same data.

//verif:harness prop=C06 name=iff
//verif:cases quick flags=2,3,6,10,31 src=0,1,2,3 hash=0 digits=6,10 bad=0
//verif:cases thorough flags=0..31 src=0,3 hash=0 digits=4,10 bad=0
//verif:replace github.com/ja7ad/otp.DecodeSecret=verifStub_DecodeSecret
//verif:opt hmac=fresh unwind=1000 maxpaths=3000
func verifH_C06_iff() {
	verifC06(verifCase("flags"), verifCase("src"), verifCase("hash"), verifCase("digits"), 10)
}

// the same with an empty key (secret "" or only white space decodes to zero bytes)
//
//verif:harness prop=C06 name=emptykey
//verif:cases quick flags=2,31 src=0,1,3 hash=0 digits=6
//verif:replace github.com/ja7ad/otp.DecodeSecret=verifStub_DecodeSecret
//verif:opt hmac=fresh unwind=1000 maxpaths=3000
func verifH_C06_emptykey() {
	verifC06(verifCase("flags"), verifCase("src"), verifCase("hash"), verifCase("digits"), 0)
}

// invalid suites (digits / hash out of range, negative digits): validation returns (false, err)
//
//verif:harness prop=C06 name=invalid
//verif:cases quick flags=2,31 src=0,3 hash=0,3 digits=-1,0,3,11
//verif:cases thorough flags=0,2,3,31 src=0,3 hash=0,3,255 digits=-1,0,3,11,12
//verif:replace github.com/ja7ad/otp.DecodeSecret=verifStub_DecodeSecret
//verif:opt hmac=fresh unwind=1000 maxpaths=3000
func verifH_C06_invalid() {
	if verifCase("hash") <= 2 && verifCase("digits") >= 4 && verifCase("digits") <= 10 {
		verifSkipCase()
	}
	verifC06(verifCase("flags"), verifCase("src"), verifCase("hash"), verifCase("digits"), 10)
}

func verifC06(flags, src, hash, digits, keylen int) {
	cfg := verifFlagsConfig(flags, 20, hash, digits, 1, 1)
	in := verifSymInput(0)
	key := verifBytes("key", keylen)
	fails := verifBool("decode_fails")
	secret := verifSecretFor(key, fails)
	var s Suite = cfg
	if flags%2 == 1 {
		s = RawSuite{SuiteConfig: cfg}
	}
	var gen string
	var gerr error
	gp := verifPanics(func() { gen, gerr = GenerateOCRA(secret, s, in) })
	verifAssert(!gp, "generation-does-not-panic")
	if gp {
		return
	}
	n := digits
	if n < 0 {
		n = 0
	}
	var code string
	switch src {
	case 0: // arbitrary string of the right length
		code = verifString("code", n)
	case 1: // the generated code itself
		if gerr != nil {
			code = verifString("code", n)
		} else {
			code = gen
		}
	case 2: // the generated code with one position replaced by an arbitrary byte
		if gerr != nil || n == 0 {
			code = verifString("code", n)
		} else {
			pos := verifInt("editpos")
			verifAssume(verifAnd(pos >= 0, pos < n))
			nb := verifU8("editbyte")
			b := []byte(gen)
			for i := range b {
				b[i] = verifIteU8(i == pos, nb, b[i])
			}
			code = string(b)
		}
	default: // wrong length
		code = verifString("code", n+1)
	}
	var ok bool
	var err error
	vp := verifPanics(func() { ok, err = ValidateOCRA(secret, code, s, in) })
	verifObserve("ok", ok)
	verifAssert(!vp, "validation-does-not-panic")
	if vp {
		return
	}
	verifAssert(ok == verifAnd(gerr == nil, verifStrEq(code, gen)), "accept-iff-generation-returns-this-string")
	verifAssert(ok == (err == nil), "verdict-and-error-agree")
	verifAssert(verifImplies(gerr != nil, verifAnd(!ok, err != nil)), "generation-failure-means-false-with-error")
	if !verifSymbolic() && gerr != nil && !fails {
		// native twin of the last clause (a model found with an arbitrary digest cannot carry the real
		// code): submit the real code of the nearest admissible input - fields zero-extended or cut to
		// the required lengths - together with the inadmissible input; it must still be refused
		fix := func(b []byte, min, max int) []byte {
			c := append([]byte{}, b...)
			for len(c) < min {
				c = append(c, 0)
			}
			if len(c) > max {
				c = c[:max]
			}
			return c
		}
		near := OCRAInput{Counter: fix(in.Counter, 8, 8), Challenge: fix(in.Challenge, 8, 128), Password: fix(in.Password, 20, 20),
			SessionInfo: fix(in.SessionInfo, 0, 128), Timestamp: fix(in.Timestamp, 8, 8)}
		if ncode, nerr := GenerateOCRA(secret, s, near); nerr == nil {
			nok, nerr2 := ValidateOCRA(secret, ncode, s, in)
			verifAssert(!nok && nerr2 != nil, "generation-failure-means-false-with-error")
		}
	}
}

// The verdict depends only on the characters of the submitted code: the string GenerateOCRA
// returned for one input and a copy of it are judged alike against another input.
//
//verif:harness prop=C06 name=samechars
//verif:cases quick flags=2,3 digits=6
//verif:cases thorough flags=2,3,6,31 digits=4,6,10
//verif:replace github.com/ja7ad/otp.DecodeSecret=verifStub_DecodeSecret
//verif:opt hmac=fresh unwind=1000 maxpaths=3000
func verifH_C06_samechars() {
	cfg := verifFlagsConfig(verifCase("flags"), 20, 0, verifCase("digits"), 1, 1)
	inA := OCRAInput{Counter: verifBytes("a.C", 8), Challenge: verifBytes("a.Q", 8), Password: verifBytes("a.P", 20), SessionInfo: verifBytes("a.S", 4), Timestamp: verifBytes("a.T", 8)}
	inB := OCRAInput{Counter: verifBytes("b.C", 8), Challenge: verifBytes("b.Q", 8), Password: verifBytes("b.P", 20), SessionInfo: verifBytes("b.S", 4), Timestamp: verifBytes("b.T", 8)}
	verifPrefer(inA.Challenge[0] != inB.Challenge[0])
	key := verifBytes("key", 10)
	code, gerr := GenerateOCRA(verifSecretFor(key, false), cfg, inA)
	if gerr != nil {
		return
	}
	cp := string(append([]byte{}, code...))
	ok1, _ := ValidateOCRA(verifSecretFor(key, false), code, cfg, inB)
	ok2, _ := ValidateOCRA(verifSecretFor(key, false), cp, cfg, inB)
	verifObserve("ok2", ok2)
	verifAssert(ok1 == ok2, "verdict-depends-only-on-the-characters-of-the-code")
	if verifSymbolic() {
		verifAssert(verifResultOwned(code), "generated-code-shares-no-memory-with-pools-or-package-state")
	}
}
