package otp

import (
	"net/url"
	"time"
)

// Library operations as function symbols for the REST-layer harnesses (C18): "the library's
// result for precisely these parameters" is then term equality; what the symbols mean is
// decided by C01-C08.  Natively the real functions run.

func verifPackStr(ss ...string) []byte {
	var b []byte
	for _, s := range ss {
		b = append(b, byte(len(s)))
		b = append(b, s...)
	}
	return b
}

func verifParamNums(p *Param) (uint64, uint64, uint64, uint64) {
	if p == nil {
		return 1 << 32, 0, 0, 0
	}
	return uint64(p.Digits), uint64(p.Period), uint64(p.Skew), uint64(p.Algorithm)
}

func verifStubAPI_GenerateHOTP(secret string, counter uint64, p *Param) (string, error) {
	d, pe, sk, al := verifParamNums(p)
	r := verifUFv("GenerateHOTP", 7, verifPackStr(secret), counter, d, pe, sk, al)
	if r[0]&1 == 1 {
		return "", ErrUnsupportedAlgorithm
	}
	return string(r[1:7]), nil
}

func verifStubAPI_GenerateTOTP(secret string, t time.Time, p *Param) (string, error) {
	d, pe, sk, al := verifParamNums(p)
	r := verifUFv("GenerateTOTP", 7, verifPackStr(secret), uint64(t.Unix()), d, pe, sk, al)
	if r[0]&1 == 1 {
		return "", ErrUnsupportedAlgorithm
	}
	return string(r[1:7]), nil
}

func verifStubAPI_ValidateHOTP(secret, code string, counter uint64, p *Param) (bool, error) {
	d, pe, sk, al := verifParamNums(p)
	r := verifUFv("ValidateHOTP", 1, verifPackStr(secret, code), counter, d, pe, sk, al)
	if r[0]&1 == 1 {
		return true, nil
	}
	return false, ErrInvalidCode
}

func verifStubAPI_ValidateTOTP(secret, code string, t time.Time, p *Param) (bool, error) {
	d, pe, sk, al := verifParamNums(p)
	r := verifUFv("ValidateTOTP", 1, verifPackStr(secret, code), uint64(t.Unix()), d, pe, sk, al)
	if r[0]&1 == 1 {
		return true, nil
	}
	return false, ErrInvalidCode
}

func verifStubAPI_RandomSecret(a Algorithm) (string, error) {
	r := verifUFv("RandomSecret", 9, nil, uint64(a))
	if r[0]&1 == 1 {
		return "", ErrUnsupportedAlgorithm
	}
	return string(r[1:9]), nil
}

func verifSuiteNums(s Suite) (string, []uint64) {
	cfg := s.Config()
	b := func(x bool) uint64 {
		if x {
			return 1
		}
		return 0
	}
	return cfg.Raw, []uint64{uint64(cfg.Hash), uint64(cfg.Digits), uint64(cfg.Challenge), b(cfg.IncludeCounter), b(cfg.IncludeChallenge), b(cfg.IncludePassword),
		b(cfg.IncludeSession), b(cfg.IncludeTimestamp), uint64(cfg.PasswordHash), uint64(cfg.TimeStep)}
}

func verifPackInput(secret, raw string, in OCRAInput) []byte {
	var b []byte
	for _, f := range [][]byte{[]byte(secret), []byte(raw), in.Counter, in.Challenge, in.Password, in.SessionInfo, in.Timestamp} {
		b = append(b, byte(len(f)))
		b = append(b, f...)
	}
	return b
}

func verifStubAPI_GenerateOCRA(secret string, suite Suite, in OCRAInput) (string, error) {
	raw, nums := verifSuiteNums(suite)
	r := verifUFv("GenerateOCRA", 7, verifPackInput(secret, raw, in), nums...)
	if r[0]&1 == 1 {
		return "", ErrInvalidRawSuite
	}
	return string(r[1:7]), nil
}

func verifStubAPI_ValidateOCRA(secret, code string, suite Suite, in OCRAInput) (bool, error) {
	raw, nums := verifSuiteNums(suite)
	r := verifUFv("ValidateOCRA", 1, verifPackInput(secret+"\x00"+code, raw, in), nums...)
	if r[0]&1 == 1 {
		return true, nil
	}
	return false, ErrInvalidCode
}

// the URL builders as one function symbol of (type, issuer, account, secret, digits, hash, period)
func verifStubAPI_URL(kind uint64, p URLParam) (*url.URL, error) {
	r := verifUFv("GenerateURL", 9, verifPackStr(p.Issuer, p.AccountName, p.Secret), kind, uint64(p.Digits), uint64(p.Algorithm), uint64(p.Period))
	if r[0]&1 == 1 {
		return nil, ErrUnsupportedAlgorithm
	}
	host := "totp"
	if kind == 1 {
		host = "hotp"
	}
	return &url.URL{Scheme: "otpauth", Host: host, Path: "/" + string(r[1:9])}, nil
}

func verifStubAPI_GenerateTOTPURL(p URLParam) (*url.URL, error) { return verifStubAPI_URL(0, p) }
func verifStubAPI_GenerateHOTPURL(p URLParam) (*url.URL, error) { return verifStubAPI_URL(1, p) }
