//verif:unless rfc4226BufPool

package otp

func verifPoisonHOTPPool() {}
