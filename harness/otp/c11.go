package otp

// C11 (reduced) — results depend only on arguments, under any call history.
// Decided here, per operation and for every argument value inside the bounds: (1) write frame:
// every store goes to memory allocated by the call or to a pool object the call currently owns;
// (2) pool protocol: nothing is read or written after Put, nothing reachable from the result is
// pooled; (3) results are independent of the previous content of pooled buffers (an adversary
// scribbled on them) and of the arguments of an earlier call; (4) a returned code string shares
// no memory with pools, package-level state or arguments.  From these, schedule independence
// follows by the argument given in DESIGN.md; schedules themselves are NOT explored.

//verif:harness prop=C11 name=rfc4226
//verif:cases quick op=0,2 digits=6,9 alg=0,2
//verif:cases thorough op=0,2 digits=1,6,8,9,10 alg=0..2
//verif:replace github.com/ja7ad/otp.DecodeSecret=verifStub_DecodeSecret
//verif:opt hmac=fresh maxpaths=4000
func verifH_C11_rfc4226() {
	keyA := verifBytes("a.key", 10)
	keyB := verifBytes("b.key", 10)
	p := &Param{Digits: Digits(verifCase("digits")), Algorithm: Algorithm(verifCase("alg")), Period: 30}
	ta, tbt := verifTimeIn("a.t", 10), verifTimeIn("b.t", 10)
	verifAssume(verifAnd(ta.Unix() >= 0, tbt.Unix() >= 0))
	ca, cb := verifU64("a.counter"), verifU64("b.counter")
	// counterexamples should use different inputs in the two calls (with the real HMAC equal
	// inputs give equal codes, which hides an overwritten result)
	verifPrefer(ca != cb)
	verifPrefer(keyA[0] != keyB[0])
	verifPrefer(ta.Unix()+100 < tbt.Unix())
	verifPoolAdversary(true)
	verifBeginOp()
	var r1, r2 string
	var e1, e2 error
	secretA := verifSecretFor(keyA, false)
	if verifCase("op") == 0 {
		r1, e1 = GenerateHOTP(secretA, ca, p)
	} else {
		r1, e1 = GenerateTOTP(secretA, ta, p)
	}
	r1copy := string(append([]byte{}, r1...))
	secretB := verifSecretFor(keyB, false)
	if verifCase("op") == 0 {
		r2, e2 = GenerateHOTP(secretB, cb, p)
	} else {
		r2, e2 = GenerateTOTP(secretB, tbt, p)
	}
	verifEndOp()
	verifObserve("r1", r1)
	verifObserve("r2", r2)
	verifAssert(e1 == nil && e2 == nil, "no-error")
	verifAssert(verifStrEq(r1, r1copy), "returned-code-does-not-change-after-a-later-call")
	verifAssert(verifFrameViolations() == 0, "writes-only-call-private-or-owned-pool-memory")
	if verifSymbolic() {
		verifAssert(verifResultOwned(r1), "first-result-shares-no-memory-with-pools-or-globals")
		verifAssert(verifResultOwned(r2), "second-result-shares-no-memory-with-pools-or-globals")
		verifAssert(!verifDependsOn(r1, "pool_"), "first-result-independent-of-pool-content")
		verifAssert(!verifDependsOn(r2, "pool_"), "second-result-independent-of-pool-content")
		verifAssert(!verifDependsOn(r2, "a."), "second-result-independent-of-first-call")
		verifAssert(!verifDependsOn(r1, "b."), "first-result-unchanged-by-second-call")
	}
}

//verif:harness prop=C11 name=ocra
//verif:cases quick flags=2,31,12
//verif:cases thorough flags=0..31
//verif:replace github.com/ja7ad/otp.DecodeSecret=verifStub_DecodeSecret
//verif:opt hmac=fresh maxpaths=4000
func verifH_C11_ocra() {
	flags := verifCase("flags")
	cfg := verifFlagsConfig(flags, 20, 0, 6, 1, 1)
	inA := OCRAInput{Counter: verifBytes("a.C", 8), Challenge: verifBytesSym("a.Q", 128, 0), Password: verifBytes("a.P", 20), SessionInfo: verifBytesSym("a.S", 128, 0), Timestamp: verifBytes("a.T", 8)}
	inB := OCRAInput{Counter: verifBytes("b.C", 8), Challenge: verifBytesSym("b.Q", 128, 0), Password: verifBytes("b.P", 20), SessionInfo: verifBytesSym("b.S", 128, 0), Timestamp: verifBytes("b.T", 8)}
	keyA := verifBytes("a.key", 10)
	keyB := verifBytes("b.key", 10)
	verifPrefer(keyA[0] != keyB[0])
	verifPoolAdversary(true)
	verifBeginOp()
	secretA := verifSecretFor(keyA, false)
	r1, e1 := GenerateOCRA(secretA, cfg, inA)
	r1copy := string(append([]byte{}, r1...))
	secretB := verifSecretFor(keyB, false)
	r2, e2 := GenerateOCRA(secretB, cfg, inB)
	// once more after the pool has been poisoned again (natively with another byte pattern): the
	// result for the same arguments must be the same, whatever the pooled buffer held
	verifPoolAdversary(true)
	secretB = verifSecretFor(keyB, false)
	r2b, e2b := GenerateOCRA(secretB, cfg, inB)
	verifEndOp()
	verifObserve("r1", r1)
	verifObserve("r2", r2)
	if e1 != nil || e2 != nil {
		return
	}
	verifAssert(e2b == nil && verifStrEq(r2, r2b), "same-arguments-same-result-whatever-the-pool-held")
	verifAssert(verifStrEq(r1, r1copy), "returned-code-does-not-change-after-a-later-call")
	verifAssert(verifFrameViolations() == 0, "writes-only-call-private-or-owned-pool-memory")
	if verifSymbolic() {
		verifAssert(verifHMACCount() == 3, "one-hmac-per-call")
		if verifHMACCount() == 3 {
			verifAssert(verifBytesEq(verifHMACMsg(1), verifHMACMsg(2)), "same-arguments-same-message-whatever-the-pool-held")
			// the second message (built in the same pooled buffer the first call used) carries nothing of the first call
			verifAssert(!verifDependsOn(verifHMACMsg(1), "a."), "second-message-independent-of-first-call")
			verifAssert(!verifDependsOn(verifHMACMsg(1), "pool_"), "second-message-independent-of-pool-content")
			verifAssert(!verifDependsOn(verifHMACMsg(0), "b."), "first-message-independent-of-second-call")
		}
		verifAssert(verifResultOwned(r1), "first-result-shares-no-memory-with-pools-or-globals")
		verifAssert(verifResultOwned(r2), "second-result-shares-no-memory-with-pools-or-globals")
		verifAssert(!verifDependsOn(r2, "a."), "second-result-independent-of-first-call")
		verifAssert(!verifDependsOn(r1, "b."), "first-result-unchanged-by-second-call")
	}
}

// suite lookups answer independently of earlier lookups (they write nothing shared): see C12/lookups
//
//verif:harness prop=C11 name=lookups
//verif:cases quick text=0..4
func verifH_C11_lookups() { verifLookups() }
