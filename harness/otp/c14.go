package otp

// C14 — OCRA admits an input exactly when it meets the suite's field requirements.

func verifSymConfig(rawLen int) SuiteConfig {
	ch := verifInt("cfg.challenge")
	ph := verifInt("cfg.passwordhash")
	verifAssume(verifAnd(ch >= 0, ch <= 6)) // the declared challenge formats
	verifAssume(verifAnd(ph >= 0, ph <= 3)) // the declared password hashes
	return SuiteConfig{
		Raw:              verifString("cfg.raw", rawLen),
		Hash:             Algorithm(verifU8("cfg.hash")),
		Digits:           verifInt("cfg.digits"),
		Challenge:        ChallengeFormat(ch),
		IncludeCounter:   verifBool("cfg.C"),
		IncludeChallenge: verifBool("cfg.Q"),
		IncludePassword:  verifBool("cfg.P"),
		IncludeSession:   verifBool("cfg.S"),
		IncludeTimestamp: verifBool("cfg.T"),
		PasswordHash:     PasswordHashAlgorithm(ph),
		TimeStep:         verifInt("cfg.timestep"),
	}
}

// every field: symbolic length 0..140 over arbitrary content (nil when the case says so)
func verifSymInput(nilmask int) OCRAInput {
	mk := func(name string, bit int) []byte {
		if nilmask&(1<<uint(bit)) != 0 {
			return nil
		}
		return verifBytesSym(name, 140, 4)
	}
	return OCRAInput{
		Counter:     mk("in.C", 0),
		Challenge:   mk("in.Q", 1),
		Password:    mk("in.P", 2),
		SessionInfo: mk("in.S", 3),
		Timestamp:   mk("in.T", 4),
	}
}

// the property's predicates, written from its text
func verifUsable(cfg SuiteConfig) bool {
	u := verifAnd(cfg.Digits >= 4, cfg.Digits <= 10)
	u = verifAnd(u, cfg.Hash <= 2)
	u = verifAnd(u, verifImplies(cfg.IncludePassword, cfg.PasswordHash != 0))
	u = verifAnd(u, verifImplies(cfg.IncludeTimestamp, cfg.TimeStep > 0))
	u = verifAnd(u, verifImplies(cfg.IncludeChallenge, cfg.Challenge != 0))
	return u
}

func verifAdmit(cfg SuiteConfig, in OCRAInput) bool {
	minQ := verifIteInt(verifOr(verifOr(cfg.Challenge == 1, cfg.Challenge == 3), cfg.Challenge == 5), 8,
		verifIteInt(verifOr(verifOr(cfg.Challenge == 2, cfg.Challenge == 4), cfg.Challenge == 6), 10, 0))
	wantP := verifIteInt(cfg.PasswordHash == 1, 20, verifIteInt(cfg.PasswordHash == 2, 32, 64))
	a := verifImplies(cfg.IncludeCounter, len(in.Counter) == 8)
	a = verifAnd(a, verifImplies(cfg.IncludeChallenge, verifAnd(len(in.Challenge) >= minQ, len(in.Challenge) <= 128)))
	pOK := verifIteInt(cfg.PasswordHash == 0, 1, 0) == 1
	_ = pOK
	// password: present, and exactly 20/32/64 bytes for SHA-1/256/512 (PasswordNone: only presence is checkable)
	a = verifAnd(a, verifImplies(cfg.IncludePassword,
		verifAnd(len(in.Password) > 0, verifImplies(cfg.PasswordHash != 0, len(in.Password) == wantP))))
	a = verifAnd(a, verifImplies(cfg.IncludeSession, len(in.SessionInfo) <= 128))
	a = verifAnd(a, verifImplies(cfg.IncludeTimestamp, len(in.Timestamp) == 8))
	return a
}

//verif:harness prop=C14 name=suite
//verif:cases quick rawlen=3 wrap=0,1
//verif:cases thorough rawlen=0,3 wrap=0,1
func verifH_C14_suite() {
	cfg := verifSymConfig(verifCase("rawlen"))
	var errS error
	if verifCase("wrap") == 1 {
		// the same through the Suite interface (RawSuite wraps a SuiteConfig)
		var s Suite = RawSuite{SuiteConfig: cfg}
		errS = s.Validate()
		verifAssert(s.Config() == cfg, "rawsuite-config-is-the-config")
	} else {
		errS = cfg.Validate()
	}
	verifObserve("suite-ok", errS == nil)
	verifAssert((errS == nil) == verifUsable(cfg), "suite-usable-iff-digits-hash-and-selected-fields-specified")
}

//verif:harness prop=C14 name=input
//verif:cases quick nilmask=0,31,10 rawlen=3
//verif:cases thorough nilmask=0..31 rawlen=0,3
func verifH_C14_input() {
	cfg := verifSymConfig(verifCase("rawlen"))
	in := verifSymInput(verifCase("nilmask"))
	errI := in.Validate(cfg)
	verifObserve("input-ok", errI == nil)
	verifAssert((errI == nil) == verifAdmit(cfg, in), "input-admitted-iff-selected-fields-meet-requirements")
}

// Through the entry points: generation and validation succeed / fail exactly by the
// two predicates (secret decodable), before anything else is looked at.
//
//verif:harness prop=C14 name=entry
//verif:cases quick nilmask=0 rawlen=3 which=0 wrap=1 hash=0,3 digits=6,11
//verif:cases thorough nilmask=0,31,21 rawlen=0,3 which=0,1 wrap=0,1 hash=0..3 digits=3,4,6,10,11
//verif:replace github.com/ja7ad/otp.DecodeSecret=verifStub_DecodeSecret
//verif:opt maxpaths=6000 unwind=400 hmac=fresh
func verifH_C14_entry() {
	cfg := verifSymConfig(verifCase("rawlen"))
	// hash and digits per case (their admissible ranges with symbolic values: harness validators)
	cfg.Hash = Algorithm(verifCase("hash"))
	cfg.Digits = verifCase("digits")
	in := verifSymInput(verifCase("nilmask"))
	key := verifBytes("key", 10)
	fails := verifBool("decode_fails")
	secret := verifSecretFor(key, fails)
	var s Suite = cfg
	if verifCase("wrap") == 1 {
		s = RawSuite{SuiteConfig: cfg}
	}
	want := verifAnd(!fails, verifAnd(verifUsable(cfg), verifAdmit(cfg, in)))
	if verifCase("which") == 0 {
		code, err := GenerateOCRA(secret, s, in)
		verifObserve("ok", err == nil)
		verifAssert((err == nil) == want, "generation-succeeds-iff-usable-and-admitted")
		verifAssert(verifImplies(err != nil, code == ""), "no-code-with-error")
		verifAssert(verifImplies(err == nil, len(code) == cfg.Digits), "code-has-the-suite-digits")
	} else {
		// with a code of the right length, validation fails with an error exactly when generation would
		n := cfg.Digits
		if n < 0 {
			n = 0
		}
		code := verifString("code", n)
		ok, err := ValidateOCRA(secret, code, s, in)
		verifObserve("ok", ok)
		verifAssert(verifImplies(!want, verifAnd(!ok, err != nil)), "validation-fails-with-error-when-generation-would")
		verifAssert(ok == (err == nil), "verdict-and-error-agree")
	}
}

// Admission does not depend on earlier calls: after a successful call with a usable suite of the
// same name, an unusable suite / inadmissible input is still refused (and a usable, admitted one
// accepted); no call writes state a later call reads.
//
//verif:harness prop=C14 name=history
//verif:cases quick rawlen=3 hash=0,3 digits=3,6,11
//verif:cases thorough rawlen=0,3 hash=0..3 digits=3,4,6,10,11
//verif:replace github.com/ja7ad/otp.DecodeSecret=verifStub_DecodeSecret
//verif:opt maxpaths=6000 unwind=400 hmac=fresh
func verifH_C14_history() {
	cfg := verifSymConfig(verifCase("rawlen"))
	cfg.Hash = Algorithm(verifCase("hash"))
	cfg.Digits = verifCase("digits")
	good := SuiteConfig{Raw: cfg.Raw, Hash: SHA1, Digits: 6, Challenge: ChallengeNumeric08, IncludeChallenge: true}
	key := verifBytes("key", 10)
	verifBeginOp()
	_, e0 := GenerateOCRA(verifSecretFor(key, false), good, OCRAInput{Challenge: verifBytes("g.Q", 8)})
	verifAssert(e0 == nil, "earlier-call-with-a-usable-suite-succeeds")
	in := verifSymInput(0)
	want := verifAnd(verifUsable(cfg), verifAdmit(cfg, in))
	code, err := GenerateOCRA(verifSecretFor(key, false), cfg, in)
	verifEndOp()
	verifObserve("ok", err == nil)
	verifAssert((err == nil) == want, "admission-independent-of-earlier-calls")
	verifAssert(verifImplies(err != nil, code == ""), "no-code-with-error")
	verifAssert(verifFrameViolations() == 0, "calls-write-nothing-a-later-call-reads")
}
