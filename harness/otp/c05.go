package otp

// C05 — OCRA codes are exactly the RFC 6287 value over the documented message layout.

func verifFlagsConfig(flags, rawLen, hash, digits, chfmt, ph int) SuiteConfig {
	ts := verifInt("cfg.timestep")
	verifAssume(ts > 0)
	return SuiteConfig{
		Raw:              verifString("cfg.raw", rawLen),
		Hash:             Algorithm(hash),
		Digits:           digits,
		Challenge:        ChallengeFormat(chfmt),
		IncludeCounter:   flags&1 != 0,
		IncludeChallenge: flags&2 != 0,
		IncludePassword:  flags&4 != 0,
		IncludeSession:   flags&8 != 0,
		IncludeTimestamp: flags&16 != 0,
		PasswordHash:     PasswordHashAlgorithm(ph),
		TimeStep:         ts,
	}
}

// verifSpecMessage builds the RFC 6287 DataInput for an admitted input, directly from the
// property text: suite ‖ 00 ‖ [C:8] ‖ [Q right-padded to 128] ‖ [P as given] ‖ [S right-padded to 128] ‖ [T:8].
func verifSpecMessage(cfg SuiteConfig, in OCRAInput, plen int) []byte {
	var r []byte
	r = append(r, []byte(cfg.Raw)...)
	r = append(r, 0)
	if cfg.IncludeCounter {
		for i := 0; i < 8; i++ {
			r = append(r, verifByteAt(in.Counter, i))
		}
	}
	if cfg.IncludeChallenge {
		for i := 0; i < 128; i++ {
			r = append(r, verifIteU8(i < len(in.Challenge), verifByteAt(in.Challenge, i), 0))
		}
	}
	if cfg.IncludePassword {
		for i := 0; i < plen; i++ {
			r = append(r, verifByteAt(in.Password, i))
		}
	}
	if cfg.IncludeSession {
		for i := 0; i < 128; i++ {
			r = append(r, verifIteU8(i < len(in.SessionInfo), verifByteAt(in.SessionInfo, i), 0))
		}
	}
	if cfg.IncludeTimestamp {
		for i := 0; i < 8; i++ {
			r = append(r, verifByteAt(in.Timestamp, i))
		}
	}
	return r
}

func verifCheckOCRA(cfg SuiteConfig, in OCRAInput, key []byte, code string) {
	plen := []int{0, 20, 32, 64}[int(cfg.PasswordHash)]
	verifAssert(verifHMACCount() == 1, "one-hmac")
	if verifHMACCount() != 1 {
		return
	}
	verifAssert(verifHMACAlg(0) == int(cfg.Hash), "hash-of-suite")
	verifAssert(verifKeyEquiv(verifHMACKey(0), key, int(cfg.Hash)), "key-is-decoded-secret")
	M := verifHMACMsg(0)
	R := verifSpecMessage(cfg, in, plen)
	verifAssert(len(M) == len(R), "message-length")
	if len(M) == len(R) {
		// region by region (suite+separator, then 136-byte chunks)
		for a := 0; a < len(R); a += 136 {
			b := a + 136
			if b > len(R) {
				b = len(R)
			}
			verifAssert(verifBytesEq(M[a:b], R[a:b]), "message-layout")
		}
	}
	// unselected fields have no influence
	if verifSymbolic() {
		if !cfg.IncludeCounter {
			verifAssert(!verifDependsOn(M, "in.C"), "counter-unselected-no-influence")
		}
		if !cfg.IncludeChallenge {
			verifAssert(!verifDependsOn(M, "in.Q"), "challenge-unselected-no-influence")
		}
		if !cfg.IncludePassword {
			verifAssert(!verifDependsOn(M, "in.P"), "password-unselected-no-influence")
		}
		if !cfg.IncludeSession {
			verifAssert(!verifDependsOn(M, "in.S"), "session-unselected-no-influence")
		}
		if !cfg.IncludeTimestamp {
			verifAssert(!verifDependsOn(M, "in.T"), "timestamp-unselected-no-influence")
		}
		verifAssert(!verifDependsOn(M, "pool_"), "pooled-buffer-content-no-influence")
		verifAssert(!verifDependsOn(code, "in."), "code-depends-on-input-only-through-the-digest")
		verifAssert(!verifDependsOn(code, "pool_"), "code-independent-of-pooled-buffer")
	}
	// the tail: the code is the helper composition on this digest (decided against the RFC
	// arithmetic for every digest in harness "tail")
	D := verifHMACDigest(0)
	want := formatDecimal(truncate(D, verifPow10(cfg.Digits)), cfg.Digits)
	verifAssert(verifStrEq(code, want), "code-is-truncate-mod-10^digits-formatted")
}

//verif:harness prop=C05 name=layout
//verif:cases quick flags=0..31 hash=0 digits=6 rawlen=24 chfmt=1 ph=1 pooladv=1
//verif:cases thorough flags=0..31 hash=0,2 digits=4,10 rawlen=0,48 chfmt=5 ph=3 pooladv=1
//verif:replace github.com/ja7ad/otp.DecodeSecret=verifStub_DecodeSecret
//verif:opt hmac=fresh unwind=1000 maxpaths=2000
func verifH_C05_layout() {
	flags := verifCase("flags")
	cfg := verifFlagsConfig(flags, verifCase("rawlen"), verifCase("hash"), verifCase("digits"), verifCase("chfmt"), verifCase("ph"))
	in := verifSymInput(0)
	key := verifBytes("key", 10)
	secret := verifSecretFor(key, false)
	verifPoolAdversary(verifCase("pooladv") == 1)
	var s Suite = cfg
	if flags%2 == 1 {
		s = RawSuite{SuiteConfig: cfg}
	}
	code, err := GenerateOCRA(secret, s, in)
	verifObserve("err", err == nil)
	verifObserve("code", code)
	if err != nil {
		return // admission is C14's subject
	}
	verifCheckOCRA(cfg, in, key, code)
}

// the arithmetic tail for every digest: DT(D) mod 10^digits, zero padded
//
//verif:harness prop=C05 name=tail
//verif:cases quick digits=4,6,8,10 hash=0,2
//verif:cases thorough digits=4..10 hash=0..2
func verifH_C05_tail() {
	verifUseModelDigests()
	d := verifCase("digits")
	cfg := SuiteConfig{Raw: "OCRA-1:HOTP-X-0:QN08", Hash: Algorithm(verifCase("hash")), Digits: d, Challenge: ChallengeNumeric08, IncludeChallenge: true}
	in := OCRAInput{Challenge: verifBytes("q", 8)}
	key := verifBytes("key", 20)
	code, err := deriveRFC6287(key, cfg, in)
	verifAssert(err == nil, "no-error")
	if err != nil || verifHMACCount() != 1 {
		verifAssert(false, "one-hmac")
		return
	}
	D := verifHMACDigest(0)
	v := uint64(verifSpecDT(D)) % verifPow10(d)
	verifObserve("code", code)
	verifIsRendering(code, v, d, "code")
}

// every registered suite name: instantiate by name and check layout and tail composition
//
//verif:harness prop=C05 name=registered
//verif:cases quick k=0,7,19,28,35,44
//verif:cases thorough k=0..44
//verif:replace github.com/ja7ad/otp.DecodeSecret=verifStub_DecodeSecret
//verif:opt hmac=fresh unwind=2000 maxpaths=2000
func verifH_C05_registered() {
	names := ListSuites()
	for i := 1; i < len(names); i++ { // the registry's iteration order is unspecified: sort
		for j := i; j > 0 && names[j] < names[j-1]; j-- {
			names[j], names[j-1] = names[j-1], names[j]
		}
	}
	k := verifCase("k")
	if k >= len(names) {
		verifSkipCase()
	}
	s, err := NewRawSuite(names[k])
	verifAssert(err == nil, "registered-suite-instantiates")
	if err != nil {
		return
	}
	cfg := s.Config()
	in := verifSymInput(0)
	key := verifBytes("key", 10)
	secret := verifSecretFor(key, false)
	code, err := GenerateOCRA(secret, s, in)
	verifObserve("err", err == nil)
	verifObserve("code", code)
	if err != nil {
		return
	}
	verifAssert(cfg.Raw == names[k], "suite-string-is-the-registered-name")
	verifCheckOCRA(cfg, in, key, code)
}

var verifParsedSuites = []string{
	"OCRA-1:HOTP-SHA1-6:QN08-S064",
	"OCRA-1:HOTP-SHA256-8:C-QN10-PSHA256-S512-T5M",
	"OCRA-1:HOTP-SHA512-10:QN10-S000-T30S",
	"OCRA-1:HOTP-SHA1-4:C-QN08-T2H",
	"OCRA-1:HOTP-SHA256-7:QN08-PSHA512-S128",
}

// suite strings that go through the parser (not registered): whatever the string says, the
// message layout is the documented one (session information padded to 128 bytes, ...)
//
//verif:harness prop=C05 name=parsed
//verif:cases quick k=0..4
//verif:replace github.com/ja7ad/otp.DecodeSecret=verifStub_DecodeSecret
//verif:opt hmac=fresh unwind=2000 maxpaths=2000
func verifH_C05_parsed() {
	name := verifParsedSuites[verifCase("k")]
	if IsKnownSuite(name) {
		verifSkipCase()
	}
	s, err := NewRawSuite(name)
	verifObserve("parsed", err == nil)
	if err != nil {
		return // the parser may reject (C15); nothing to compute then
	}
	cfg := s.Config()
	verifAssert(cfg.Raw == name, "suite-string-is-the-parsed-text")
	in := verifSymInput(0)
	key := verifBytes("key", 10)
	secret := verifSecretFor(key, false)
	code, err := GenerateOCRA(secret, s, in)
	verifObserve("err", err == nil)
	verifObserve("code", code)
	if err != nil {
		return
	}
	verifCheckOCRA(cfg, in, key, code)
}
