//verif:requires rfc6287BufPool

package otp

// the adversary of C11: takes the pooled OCRA buffer, scribbles on it, leaves it with the
// model's length and puts it back, so that the next Get (same goroutine) receives it
func verifPoisonOCRAPool(n int, pat byte) {
	b := rfc6287BufPool.Get().(*[]byte)
	full := (*b)[:cap(*b)]
	for i := range full {
		full[i] = pat
	}
	if n > len(full) {
		n = len(full)
	}
	*b = full[:n]
	rfc6287BufPool.Put(b)
}
