//verif:unless hmacPools

package otp

// the tree under test has no HMAC constructor table to hook: HMAC calls cannot be recorded or
// given a model's digests natively (digest-level models then do not reproduce and are reported
// as unconfirmed)
func verifInstall() {}
