//go:build js && wasm

package main

import "syscall/js"

// Symbolic runtime (gosym intrinsics) for harnesses of the WebAssembly binding.

func verifU8(name string) uint8
func verifU64(name string) uint64
func verifInt(name string) int
func verifBool(name string) bool
func verifBytes(name string, n int) []byte
func verifString(name string, n int) string
func verifCase(name string) int
func verifAssume(c bool)
func verifAssert(c bool, name string)
func verifObserve(name string, v any)
func verifAnd(a, b bool) bool
func verifOr(a, b bool) bool
func verifImplies(a, b bool) bool
func verifIteU8(c bool, a, b uint8) uint8
func verifStrEq(a, b string) bool
func verifPanics(f func()) bool
func verifSymbolic() bool
func verifSkipCase()
func verifPrefer(c bool)
func verifTraceOn(on bool)
func verifTraceLeaks(prefix string) int
func verifTraceClass(class string)
func verifUseModelDigests()
func verifHMACCount() int
func verifHMACDigest(i int) []byte
func verifJSString(s string) js.Value
func verifJSNumber(n int) js.Value
func verifJSOther(tag int) js.Value
func verifJSResult(v any) (int, bool, string)
func verifJSRegistered(name string) int
func verifJSRegisteredFn(name string) string
func verifHMACAlg(i int) int
func verifHMACKey(i int) []byte
func verifHMACMsg(i int) []byte
func verifBytesEq(a, b []byte) bool
