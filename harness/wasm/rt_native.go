//go:build js && wasm

package main

// Native twin of rt_sym.go for the js/wasm build: harnesses run as a Go test compiled to
// WebAssembly and executed under Node (go_js_wasm_exec), with real syscall/js values.

import (
	"fmt"
	"syscall/js"
)

type verifJob struct {
	ID      string            `json:"id"`
	Harness string            `json:"harness"`
	Cases   map[string]int64  `json:"cases"`
	Vars    map[string]uint64 `json:"vars"`
	Digests [][]int           `json:"digests"`
}

type verifJobResult struct {
	ID           string            `json:"id"`
	Failed       []string          `json:"failed"`
	AssumeFailed bool              `json:"assume_failed"`
	Panic        string            `json:"panic"`
	Observes     map[string]string `json:"observes"`
	Asserts      int               `json:"asserts"`
	AssumeSite   string            `json:"assume_site"`
	Timeout      bool              `json:"timeout"`
}

var (
	verifCur *verifJob
	verifRes *verifJobResult
	verifSeq map[string]int
)

type verifAssumeFailed struct{}

func verifRunJob(j *verifJob, table map[string]func()) (res *verifJobResult) {
	verifCur = j
	verifRes = &verifJobResult{ID: j.ID, Observes: map[string]string{}}
	res = verifRes
	verifSeq = map[string]int{}
	f := table[j.Harness]
	if f == nil {
		res.Panic = "no such harness: " + j.Harness
		return
	}
	defer func() {
		if r := recover(); r != nil {
			if _, ok := r.(verifAssumeFailed); ok {
				res.AssumeFailed = true
				return
			}
			res.Panic = fmt.Sprint(r)
		}
	}()
	f()
	return
}

func verifNext(base string) uint64 {
	verifSeq[base]++
	name := base
	if verifSeq[base] > 1 {
		name = fmt.Sprintf("%s#%d", base, verifSeq[base])
	}
	return verifCur.Vars[name]
}

func verifU8(name string) uint8   { return uint8(verifNext(name)) }
func verifU64(name string) uint64 { return verifNext(name) }
func verifInt(name string) int    { return int(int64(verifNext(name))) }
func verifBool(name string) bool  { return verifNext(name) != 0 }
func verifCase(name string) int   { return int(verifCur.Cases[name]) }
func verifSymbolic() bool         { return false }
func verifSkipCase()              { panic(verifAssumeFailed{}) }
func verifPrefer(c bool)          {}
func verifTraceOn(on bool)        {}
func verifTraceLeaks(prefix string) int { return 0 }
func verifTraceClass(class string)      {}
func verifUseModelDigests()             {}
func verifHMACCount() int               { return 0 }
func verifHMACDigest(i int) []byte      { return nil }
func verifHMACAlg(i int) int            { return 0 }
func verifHMACKey(i int) []byte         { return nil }
func verifHMACMsg(i int) []byte         { return nil }
func verifAnd(a, b bool) bool           { return a && b }
func verifOr(a, b bool) bool            { return a || b }
func verifImplies(a, b bool) bool       { return !a || b }
func verifStrEq(a, b string) bool       { return a == b }
func verifBytesEq(a, b []byte) bool     { return string(a) == string(b) }

func verifIteU8(c bool, a, b uint8) uint8 {
	if c {
		return a
	}
	return b
}

func verifBytes(name string, n int) []byte {
	b := make([]byte, n)
	for i := range b {
		b[i] = byte(verifNext(fmt.Sprintf("%s[%d]", name, i)))
	}
	return b
}

func verifString(name string, n int) string { return string(verifBytes(name, n)) }

func verifAssume(c bool) {
	if !c {
		panic(verifAssumeFailed{})
	}
}

func verifAssert(c bool, name string) {
	verifRes.Asserts++
	if !c {
		verifRes.Failed = append(verifRes.Failed, name)
	}
}

func verifPanics(f func()) (p bool) {
	defer func() {
		if r := recover(); r != nil {
			if _, ok := r.(verifAssumeFailed); ok {
				panic(r)
			}
			p = true
		}
	}()
	f()
	return false
}

func verifObserve(name string, v any) {
	switch x := v.(type) {
	case string:
		s := "str["
		for i := 0; i < len(x); i++ {
			s += fmt.Sprintf("%d,", x[i])
		}
		verifRes.Observes[name] = s + "]"
	case bool:
		verifRes.Observes[name] = fmt.Sprint(x)
	default:
		verifRes.Observes[name] = fmt.Sprint(x)
	}
}

func verifJSString(s string) js.Value { return js.ValueOf(s) }
func verifJSNumber(n int) js.Value    { return js.ValueOf(n) }

func verifJSOther(tag int) js.Value {
	switch tag {
	case 0:
		return js.Undefined()
	case 1:
		return js.Null()
	case 2:
		return js.ValueOf(true)
	case 3:
		return js.ValueOf(1)
	case 4:
		return js.ValueOf("x")
	case 5:
		return js.Global().Get("Symbol").Invoke("x")
	case 6:
		return js.Global().Get("Object").New()
	default:
		return js.Global().Get("Object") // a function
	}
}

func verifJSResult(v any) (int, bool, string) {
	jv, ok := v.(js.Value)
	if !ok {
		return -1, false, ""
	}
	switch jv.Type() {
	case js.TypeBoolean:
		return 2, jv.Bool(), ""
	case js.TypeString:
		return 4, false, jv.String()
	}
	return int(jv.Type()), false, ""
}

func verifJSRegistered(name string) int {
	if js.Global().Get(name).Type() == js.TypeFunction {
		return 1
	}
	return 0
}

// which Go function a global is bound to cannot be observed from JS: natively the name itself is
// returned when the global is a function (the binding is decided symbolically)
func verifJSRegisteredFn(name string) string {
	if js.Global().Get(name).Type() == js.TypeFunction {
		return name
	}
	return ""
}
