//go:build js && wasm

package main

import (
	"syscall/js"
	"time"

	"github.com/ja7ad/otp"
)

// C20 — the WebAssembly binding gives the same answers as the native library (Go side).
// Both sides are the js/wasm build of the sources; the native library functions are the same
// source files that the native build compiles.

// independent RFC 4648 base32 text of a key (upper case, unpadded)
func verifEnc32(b []byte) string {
	nbits := len(b) * 8
	nch := (nbits + 4) / 5
	out := make([]byte, nch)
	for i := 0; i < nch; i++ {
		var v uint8
		for k := 0; k < 5; k++ {
			bit := i*5 + k
			v <<= 1
			if bit < nbits {
				v |= (b[bit/8] >> (7 - uint(bit%8))) & 1
			}
		}
		out[i] = verifIteU8(v < 26, 'A'+v, '2'+(v-26))
	}
	return string(out)
}

var verifDigitsText = []string{"6", "8", "9", "10", "7", ""}
var verifAlgText = []string{"SHA1", "SHA256", "SHA512", "MD5"}

func verifPow10(d int) uint64 {
	r := uint64(1)
	for i := 0; i < d; i++ {
		r *= 10
	}
	return r
}

func verifSpecDT(D []byte) uint32 {
	o := int(D[len(D)-1] & 0x0f)
	return (uint32(D[o])&0x7f)<<24 | uint32(D[o+1])<<16 | uint32(D[o+2])<<8 | uint32(D[o+3])
}

func verifIsRendering(s string, v uint64, d int, tag string) {
	verifAssert(len(s) == d, tag+"/length")
	if len(s) != d {
		return
	}
	sum := uint64(0)
	alld := true
	for j := 0; j < d; j++ {
		ch := s[j]
		alld = verifAnd(alld, verifAnd(ch >= '0', ch <= '9'))
		sum = sum*10 + uint64(ch-'0')
	}
	verifAssert(alld, tag+"/all-digits")
	verifAssert(sum == v, tag+"/value")
}

// The wasm code derivation is the RFC 4226 value for every digest (the native derivation is
// proved equal to the same specification in C01, hence both agree): one HMAC of the hash over
// the big-endian counter under the key, DT(D) mod 10^digits zero-padded.
//
//verif:harness prop=C20 name=derive
//verif:cases quick digits=6,8,9,10 alg=0..2
//verif:cases thorough digits=1..10 alg=0..2
//verif:opt prove_timeout=90
func verifH_C20_derive() {
	d := verifCase("digits")
	alg := verifCase("alg")
	key := verifBytes("key", 10)
	counter := verifU64("counter")
	w, werr := otp.DeriveRFC4226Wasm(key, counter, d, otp.Algorithm(alg))
	verifObserve("wasm", w)
	verifAssert(werr == nil, "no-error")
	if !verifSymbolic() {
		// native twin (under Node): the digest cannot be intercepted here; compare with the
		// library's native derivation for the same key instead
		n, nerr := otp.GenerateHOTP(verifEnc32(key), counter, &otp.Param{Digits: otp.Digits(d), Algorithm: otp.Algorithm(alg)})
		verifAssert(nerr == nil && w == n, "code/value")
		return
	}
	verifAssert(verifHMACCount() == 1, "one-hmac")
	if verifHMACCount() != 1 {
		return
	}
	verifAssert(verifHMACAlg(0) == alg, "hash-of-argument")
	msg := verifHMACMsg(0)
	ok := len(msg) == 8
	if len(msg) == 8 {
		for i := 0; i < 8; i++ {
			ok = verifAnd(ok, msg[i] == byte(counter>>(56-8*uint(i))))
		}
	}
	verifAssert(ok, "message-big-endian-counter")
	verifAssert(verifBytesEq(verifHMACKey(0), key), "key-is-secret")
	D := verifHMACDigest(0)
	v := uint64(verifSpecDT(D)) % verifPow10(d)
	verifIsRendering(w, v, d, "code")
}

// ... also as the second derivation of a module instance: after a derivation with another (or
// the same) hash and the same or another key, the code is still the RFC 4226 value for its own
// hash, key and counter (whatever the implementation keeps between calls).
//
//verif:harness prop=C20 name=derivehistory
//verif:cases quick alg1=0,1 alg=0,2 samekey=0,1 digits=6
//verif:cases thorough alg1=0..2 alg=0..2 samekey=0,1 digits=6,10
//verif:opt prove_timeout=90
func verifH_C20_derivehistory() {
	d := verifCase("digits")
	alg := verifCase("alg")
	key := verifBytes("key", 10)
	key1 := key
	if verifCase("samekey") == 0 {
		key1 = verifBytes("key1", 10)
		verifPrefer(key1[0] != key[0])
	}
	counter := verifU64("counter")
	_, err1 := otp.DeriveRFC4226Wasm(key1, verifU64("counter1"), 6, otp.Algorithm(verifCase("alg1")))
	verifAssert(err1 == nil, "first-no-error")
	w, werr := otp.DeriveRFC4226Wasm(key, counter, d, otp.Algorithm(alg))
	verifObserve("wasm", w)
	verifAssert(werr == nil, "no-error")
	if !verifSymbolic() {
		n, nerr := otp.GenerateHOTP(verifEnc32(key), counter, &otp.Param{Digits: otp.Digits(d), Algorithm: otp.Algorithm(alg)})
		verifAssert(nerr == nil && w == n, "code/value")
		return
	}
	verifAssert(verifHMACCount() == 2, "one-hmac-per-derivation")
	if verifHMACCount() != 2 {
		return
	}
	verifAssert(verifHMACAlg(1) == alg, "hash-of-argument")
	msg := verifHMACMsg(1)
	ok := len(msg) == 8
	if len(msg) == 8 {
		for i := 0; i < 8; i++ {
			ok = verifAnd(ok, msg[i] == byte(counter>>(56-8*uint(i))))
		}
	}
	verifAssert(ok, "message-big-endian-counter")
	verifAssert(verifBytesEq(verifHMACKey(1), key), "key-is-secret")
	D := verifHMACDigest(1)
	v := uint64(verifSpecDT(D)) % verifPow10(d)
	verifIsRendering(w, v, d, "code")
}

// unsupported hash: error (same as native)
//
//verif:harness prop=C20 name=derivebad
//verif:cases quick x=0
func verifH_C20_derivebad() {
	a := verifU8("alg")
	verifAssume(a > 2)
	w, err := otp.DeriveRFC4226Wasm(verifBytes("key", 4), verifU64("counter"), 6, otp.Algorithm(a))
	verifAssert(err != nil && w == "", "unsupported-hash-error")
}

// generateHOTP / generateTOTP bindings = native generation for the same arguments
//
//verif:harness prop=C20 name=generate
//verif:cases quick which=0,1 dt=0,3,4 at=0,2,3
//verif:cases thorough which=0,1 dt=0..5 at=0..3
//verif:replace github.com/ja7ad/otp.deriveRFC4226=verifStub_derive
//verif:replace github.com/ja7ad/otp.DeriveRFC4226Wasm=verifStub_derive
func verifH_C20_generate() {
	// derivations by their common contract (see harness validate); decided here: the binding hands
	// exactly its arguments (secret, counter / floor(time/period), digits, hash) to the derivation
	secret := "JBSWY3DPEHPK3PXP"
	dt, at := verifDigitsText[verifCase("dt")], verifAlgText[verifCase("at")]
	if dt == "" {
		verifSkipCase() // empty strings are an argument error: harness args
	}
	digits, alg := otp.DigitsFromStr(dt), otp.AlgorithmFromStr(at)
	n := verifInt("n") // counter or timestamp
	verifAssume(verifAnd(n >= 0, n <= 1<<53))
	var r any
	var want string
	var werr error
	if verifCase("which") == 0 {
		r = generateHOTP(js.Value{}, []js.Value{verifJSString(secret), verifJSNumber(n), verifJSString(dt), verifJSString(at)})
		want, werr = otp.GenerateHOTP(secret, uint64(n), &otp.Param{Digits: digits, Algorithm: alg})
	} else {
		period := verifInt("period")
		verifAssume(verifAnd(period >= 1, period <= 3600))
		r = generateTOTP(js.Value{}, []js.Value{verifJSString(secret), verifJSNumber(n), verifJSString(dt), verifJSString(at), verifJSNumber(period)})
		want, werr = otp.GenerateTOTP(secret, time.Unix(int64(n), 0), &otp.Param{Digits: digits, Algorithm: alg, Period: uint(period)})
	}
	kind, _, s := verifJSResult(r)
	verifObserve("result", s)
	verifAssert(kind == 4, "returns-a-string")
	verifAssert(werr == nil, "native-generation-succeeds")
	verifAssert(verifStrEq(s, want), "binding-returns-the-native-code")
}

// validateHOTP / validateTOTP bindings = native validation verdict for every code, window, skew
//
//verif:harness prop=C20 name=validate
//verif:cases quick which=0,1 skew=0,1,10 src=0,1
//verif:cases thorough which=0,1 skew=0..10 src=0,1
//verif:replace github.com/ja7ad/otp.deriveRFC4226=verifStub_derive
//verif:replace github.com/ja7ad/otp.DeriveRFC4226Wasm=verifStub_derive
//verif:opt maxpaths=6000
func verifH_C20_validate() {
	// both derivations are replaced by the same code function CODE(key,counter,digits,hash)
	// (each is proved equal to the RFC 4226 value: harness derive here, C01 natively);
	// what is compared is the window / argument handling of the binding and of the library
	secret := "JBSWY3DPEHPK3PXP"
	s := verifCase("skew")
	n := verifInt("n")
	verifAssume(verifAnd(n >= 0, n <= 1<<53)) // including counters smaller than the window (no wrap below 0)
	var code string
	if verifCase("src") == 1 {
		// the code of a counter / step near the window
		delta := verifInt("delta")
		verifAssume(verifAnd(delta >= -(s + 2), delta <= s+2))
		if verifCase("which") == 0 {
			code, _ = otp.GenerateHOTP(secret, uint64(n+delta), nil)
		} else {
			code, _ = otp.GenerateTOTP(secret, time.Unix(int64(n+30*delta), 0), nil)
		}
	} else {
		code = verifString("code", 6)
	}
	var r any
	var want bool
	if verifCase("which") == 0 {
		r = validateHOTP(js.Value{}, []js.Value{verifJSString(secret), verifJSString(code), verifJSNumber(n), verifJSString("6"), verifJSString("SHA1"), verifJSNumber(s)})
		want, _ = otp.ValidateHOTP(secret, code, uint64(n), &otp.Param{Digits: 6, Algorithm: otp.SHA1, Skew: uint(s)})
	} else {
		verifAssume(n/30 >= s)
		r = validateTOTP(js.Value{}, []js.Value{verifJSString(secret), verifJSString(code), verifJSNumber(n), verifJSString("6"), verifJSString("SHA1"), verifJSNumber(s), verifJSNumber(30)})
		want, _ = otp.ValidateTOTP(secret, code, time.Unix(int64(n), 0), &otp.Param{Digits: 6, Algorithm: otp.SHA1, Skew: uint(s), Period: 30})
	}
	kind, b, _ := verifJSResult(r)
	verifObserve("verdict", b)
	verifObserve("want", want)
	verifAssert(kind == 2, "returns-a-boolean")
	verifAssert(b == want, "binding-verdict-equals-native-verdict")
}

// wrong argument count / type / range: a string starting with "error:", no panic
//
//verif:harness prop=C20 name=args
//verif:cases quick fn=0..4 bad=0..8
//verif:opt maxpaths=4000
func verifH_C20_args() {
	fn := verifCase("fn")
	bad := verifCase("bad") // 0 = too few, 1 = too many, 2.. = argument position bad-2 has a wrong type / value
	fns := []func(js.Value, []js.Value) any{generateHOTP, generateTOTP, validateHOTP, validateTOTP, generateOTPURL}
	// well-formed argument lists (kinds: s = string, n = number)
	shapes := []string{"snss", "snssn", "ssnssn", "ssnssnn", "ssssss"}
	shape := shapes[fn]
	mk := func(k byte, i int) js.Value {
		if k == 's' {
			texts := []string{"JBSWY3DPEHPK3PXP", "123456", "6", "SHA1", "totp", "x"}
			return verifJSString(texts[i%len(texts)])
		}
		return verifJSNumber(1 + i)
	}
	var args []js.Value
	for i := 0; i < len(shape); i++ {
		args = append(args, mk(shape[i], i))
	}
	switch {
	case bad == 0:
		args = args[:len(args)-1]
	case bad == 1:
		args = append(args, verifJSNumber(1))
	default:
		pos := bad - 2
		if pos >= len(shape) {
			verifSkipCase()
		}
		if shape[pos] == 's' {
			if verifBool("empty") {
				args[pos] = verifJSString("")
			} else {
				tag := verifInt("tag")
				verifAssume(verifAnd(tag >= 0, verifAnd(tag <= 7, tag != 4)))
				args[pos] = verifJSOther(tag)
			}
		} else {
			if verifBool("negative") {
				v := verifInt("neg")
				verifAssume(v < 0)
				args[pos] = verifJSNumber(v)
			} else {
				tag := verifInt("tag")
				verifAssume(verifAnd(tag >= 0, verifAnd(tag <= 7, tag != 3)))
				args[pos] = verifJSOther(tag)
			}
		}
	}
	var r any
	p := verifPanics(func() { r = fns[fn](js.Value{}, args) })
	verifAssert(!p, "no-panic")
	if p {
		return
	}
	kind, _, s := verifJSResult(r)
	verifObserve("result", s)
	verifAssert(kind == 4, "returns-a-string")
	verifAssert(len(s) >= 6 && s[:6] == "error:", "answer-starts-with-error:")
}

// out-of-range skew / period / timestamp
//
//verif:harness prop=C20 name=ranges
//verif:cases quick which=0..3
func verifH_C20_ranges() {
	sec, code := verifJSString("JBSWY3DPEHPK3PXP"), verifJSString("123456")
	six, sha := verifJSString("6"), verifJSString("SHA1")
	var r any
	switch verifCase("which") {
	case 0: // HOTP skew above 10
		sk := verifInt("skew")
		verifAssume(sk > 10)
		r = validateHOTP(js.Value{}, []js.Value{sec, code, verifJSNumber(5), six, sha, verifJSNumber(sk)})
	case 1: // TOTP skew above 10
		sk := verifInt("skew")
		verifAssume(sk > 10)
		r = validateTOTP(js.Value{}, []js.Value{sec, code, verifJSNumber(5), six, sha, verifJSNumber(sk), verifJSNumber(30)})
	case 2: // TOTP period 0
		r = validateTOTP(js.Value{}, []js.Value{sec, code, verifJSNumber(5), six, sha, verifJSNumber(1), verifJSNumber(0)})
	case 3: // generateTOTP period outside 1..3600
		p := verifInt("period")
		verifAssume(verifOr(p > 3600, p == 0))
		r = generateTOTP(js.Value{}, []js.Value{sec, verifJSNumber(5), six, sha, verifJSNumber(p)})
	}
	kind, _, s := verifJSResult(r)
	verifObserve("result", s)
	verifAssert(kind == 4 && len(s) >= 6 && s[:6] == "error:", "out-of-range-answered-with-error")
}

// the five functions are registered under their own names
//
//verif:harness prop=C20 name=register
//verif:cases quick x=0
func verifH_C20_register() {
	registerFunctions()
	for _, n := range []string{"generateHOTP", "generateTOTP", "validateHOTP", "validateTOTP", "generateOTPURL"} {
		verifAssert(verifJSRegistered(n) == 1, "global-registered-once")
		verifAssert(verifJSRegisteredFn(n) == n, "global-bound-to-the-function-of-the-same-name")
	}
}
