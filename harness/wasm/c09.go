//go:build js && wasm

package main

import (
	"syscall/js"

	"github.com/ja7ad/otp"
)

// C09 (js/wasm build) — the binding's validation entry points compare in constant time.

//verif:harness prop=C09 name=wasmbinding
//verif:cases quick which=0,1 skew=0,2
//verif:cases thorough which=0,1 skew=0,1,2,10
//verif:replace github.com/ja7ad/otp.DeriveRFC4226Wasm=verifStub_derive
//verif:opt confirm=analysis attacker=code maxpaths=6000 stop_on_violation=1
func verifH_C09_wasmbinding() {
	secret := "JBSWY3DPEHPK3PXP"
	s := verifCase("skew")
	n := verifInt("n")
	verifAssume(verifAnd(n >= 1000, n <= 1<<53))
	code := verifString("code", 6)
	var r any
	verifTraceOn(true)
	if verifCase("which") == 0 {
		r = validateHOTP(js.Value{}, []js.Value{verifJSString(secret), verifJSString(code), verifJSNumber(n), verifJSString("6"), verifJSString("SHA1"), verifJSNumber(s)})
	} else {
		r = validateTOTP(js.Value{}, []js.Value{verifJSString(secret), verifJSString(code), verifJSNumber(n), verifJSString("6"), verifJSString("SHA1"), verifJSNumber(s), verifJSNumber(30)})
	}
	verifTraceOn(false)
	kind, b, _ := verifJSResult(r)
	verifObserve("verdict", b)
	if kind == 2 && !b {
		verifTraceClass("rejected-right-length")
	}
	verifAssert(verifTraceLeaks("code") == 0, "no-variable-time-comparison-of-submitted-code-with-secret-derived-data")
}

// ValidateOTPWasm with the real wasm derivation (one derivation)
//
//verif:harness prop=C09 name=wasmvalidate
//verif:cases quick digits=6,10
//verif:cases thorough digits=1,6,8,9,10
//verif:opt hmac=fresh confirm=analysis attacker=code maxpaths=6000 stop_on_violation=1
func verifH_C09_wasmvalidate() {
	d := verifCase("digits")
	key := verifBytes("key", 10)
	code := verifString("code", d)
	counter := verifU64("counter")
	verifTraceOn(true)
	ok, _ := otp.ValidateOTPWasm(code, key, counter, otp.Digits(d), otp.SHA1)
	verifTraceOn(false)
	verifObserve("ok", ok)
	if !ok {
		verifTraceClass("rejected-right-length")
	}
	verifAssert(verifTraceLeaks("code") == 0, "no-variable-time-comparison-of-submitted-code-with-secret-derived-data")
}
