#!/usr/bin/env python3
"""Generates /verif/MANIFEST.json from the table below (kept in one place so that
claims, notes and not_applicable stay consistent)."""
import json, sys

TECH = "bounded symbolic execution of the real go/ssa code (gosym) + SMT (z3, cvc5 bit-vector and integer encodings); models replayed natively"

CLAIMED = {
 "C01": dict(
   text="For digits 1..10 x 3 hashes: deriveRFC4226's SSA is executed symbolically with the HMAC digest as an uninterpreted function of (key, message); the solver proves, for every 64-bit counter, every key of the case-split lengths and every digest value, that exactly one HMAC of the parameter's hash is computed over the 8-byte big-endian counter under the given key, and that the returned string is the zero-padded decimal rendering of DT(digest) mod 10^digits (spec literal). GenerateHOTP is proved equal to deriveRFC4226(DecodeSecret(secret), counter, Digits, Algorithm) with nil = {6,SHA1} through the real base32 decoder on symbolic secret text; every unsupported Digits/Algorithm byte value is proved to yield (\"\", err) without panic.",
   note="Bounds: key lengths 20 (quick) / 0,1,20,65 (thorough) in derive, 0,1,10,20 (+5,16,32 thorough) in api; digits {1,6,8,9,10} quick, 1..10 thorough. Trusted: crypto/hmac+sha* compute HMAC (modelled as uninterpreted function; results hold for every digest), go/ssa, the executor (validated per run by native replay of one witness per harness instance), SMT solvers. Secret spellings other than upper-case unpadded are C07's subject.",
   design="DESIGN.md section 2/C01"),
}

NA_REASON_PENDING = "not yet built in this session: no solver-based check registered (see DESIGN.md for the planned encoding)"

def main():
    props = [json.loads(l) for l in open('/verif/properties.jsonl')]
    checks, na = [], []
    for p in props:
        pid = p['id']
        if pid in CLAIMED:
            c = CLAIMED[pid]
            checks.append({
                "property_id": pid,
                "quick_cmd": f"./check {pid} --tier quick",
                "thorough_cmd": f"./check {pid} --tier thorough",
                "evidence_file": f"/verif/evidence/{pid}.json",
                "replay_cmd_template": f"./check {pid} --replay {{path}}",
                "engine": "gosym",
                "level_claimed": {"category": "model_checking", "text": c['text'], "design_ref": c['design']},
                "level_note": c['note'],
                "technique": c.get('technique', TECH),
            })
        else:
            na.append({"property_id": pid, "reason": NA.get(pid, NA_REASON_PENDING)})
    m = {
        "version": 1,
        "setup_cmd": "cd /verif/engine && GOFLAGS=-mod=mod GOPROXY=off go build -o /verif/bin/gosym . && /verif/bin/gosym selftest",
        "hooks": {
            "guard": "verif",
            "enable": "no tagged sources in /repo: harnesses are overlay files (/verif/harness/<pkg>/*.go mapped to <pkg dir>/zz_verif_*.go via go/packages Overlay for the encoder and `go test -overlay` for native replay)",
            "baseline_off_cmd": "cd /repo && go test -vet=off -count=1 ./... && cd /repo/internal/app && go test -vet=off -count=1 ./...",
            "source_commits": [],
            "add_only": True,
        },
        "engines": [{"name": "gosym", "path": "/verif/engine", "serves_properties": sorted(CLAIMED), "kind_free_text": "own symbolic executor over go/ssa (x/tools v0.29.0) emitting SMT-LIB2 for z3 4.8.12 / z3 5.1.0 / cvc5 1.0.3; path enumeration by re-execution; native replay of models with go test -overlay"}],
        "checks": checks,
        "not_applicable": na,
        "notes": "Fix commits in /repo are listed in /verif/known_findings.json (status fixed). Exit codes of ./check: 0 held within bounds, 1 VIOLATION (natively replayed), 2 ENGINE-ERROR (nothing believed).",
    }
    json.dump(m, open('/verif/MANIFEST.json', 'w'), indent=1)
    print("claimed", sorted(CLAIMED), "not_applicable", [x['property_id'] for x in na])

NA = {}
if __name__ == '__main__':
    main()
