#!/usr/bin/env python3
"""Generates /verif/MANIFEST.json from the table below (kept in one place so that
claims, notes and not_applicable stay consistent)."""
import json, sys

TECH = "bounded symbolic execution of the real go/ssa code (gosym) + SMT (z3, cvc5 bit-vector and integer encodings); models replayed natively"

CLAIMED = {
 "C01": dict(
   text="For digits 1..10 x 3 hashes: deriveRFC4226's SSA is executed symbolically with the HMAC digest as an uninterpreted function of (key, message); the solver proves, for every 64-bit counter, every key of the case-split lengths and every digest value, that exactly one HMAC of the parameter's hash is computed over the 8-byte big-endian counter under the given key, and that the returned string is the zero-padded decimal rendering of DT(digest) mod 10^digits (spec literal). GenerateHOTP is proved equal to deriveRFC4226(DecodeSecret(secret), counter, Digits, Algorithm) with nil = {6,SHA1} through the real base32 decoder on symbolic secret text; every unsupported Digits/Algorithm byte value is proved to yield (\"\", err) without panic.",
   note="Bounds: key lengths 20 (quick) / 0,1,20,65 (thorough) in derive, 0,1,10,20 (+5,16,32 thorough) in api; digits {1,6,8,9,10} quick, 1..10 thorough. Trusted: crypto/hmac+sha* compute HMAC (modelled as uninterpreted function; results hold for every digest), go/ssa, the executor (validated per run by native replay of one witness per harness instance), SMT solvers. Secret spellings other than upper-case unpadded are C07's subject.",
   design="DESIGN.md section 2/C01"),
 "C02": dict(
   text="GenerateTOTP's SSA (with time.Time.Unix from the standard library's SSA as the definition of Unix seconds) is executed on an arbitrary time.Time representation (wall/ext/loc fields symbolic under package time's invariant, with and without monotonic reading, three location shapes); the solver proves for every instant 0 <= u < 2^62 and every period 0..2^32 that exactly one derivation is made, with the decoded key, the parameter's digits and hash, and a counter n with n*p <= u < (n+1)*p in 128-bit arithmetic (p = 30 for period 0 and for nil parameters), that no panic is reachable, that two instants with equal Unix second but different nanoseconds / monotonic reading / location give the same derivation, and for fixed periods that the step advances exactly at multiples of the period.",
   note="Bounds: u < 2^62, period <= 2^32 (as the property); boundary clause for periods {1,30,3600} quick, seven periods thorough; deriveRFC4226 and DecodeSecret replaced by their contracts (C01, C07). Outside: negative Unix times, a caller-replaced TimeCounterFunc. Trusted as in C01.",
   design="DESIGN.md section 2/C02"),
 "C03": dict(
   text="ValidateHOTP/validateRFC4226/validate and crypto/subtle.ConstantTimeCompare are executed from their SSA with the code function CODE(key,counter,digits,hash) as an uninterpreted function (contract of deriveRFC4226 from C01) for every 64-bit counter with c+s <= 2^64-1, every key, every hash, window s per case; the submitted string is (a) arbitrary bytes, (b) the code of an arbitrary 64-bit counter, (c) such a code with one position replaced by an arbitrary byte; the solver proves accept <=> exists c' in [max(0,c-s), c+s] with string == CODE(c') (for (a): accept => ...), wrong lengths rejected, verdict/error agreement, window > 10 refused with zero derivations, nil parameters = {6, SHA-1, window 2}.",
   note="Bounds: windows {0,1,2,10} quick / 0..10 thorough, digits 6 quick / {1,6,8,10} thorough; lengths d-6,d-1,d+1(,d+2). The 65-bit window arithmetic of the spec is independent of the code's guard. Contracts: deriveRFC4226 (C01), DecodeSecret (C07). Counterexample models are made independent of the uninterpreted function by soft constraints (no collisions near the window) before native replay.",
   design="DESIGN.md section 2/C03"),
 "C04": dict(
   text="ValidateTOTP is executed from its SSA: (base) with the real time-counter hook on an arbitrary instant and symbolic period the solver proves the single derivation of skew 0 uses n with n*p <= u < (n+1)*p (period 0 and nil parameters = 30 s) and accept <=> string == CODE(n); (window) with the package's replaceable time-counter hook returning an arbitrary step n >= s the solver proves accept <=> exists k in [-s,s]: string == CODE(n+k) for arbitrary bytes / codes of arbitrary steps / single-byte edits, that the hook is evaluated once with the resolved period; (refuse) every skew > 10 is refused with zero derivations, with the loop's unwinding assertion (bound 40) treated as a violation of the bounded-work clause.",
   note="Bounds: skews {0,1,2,10} quick / 0..10 thorough; periods {0,30} quick, {0,1,30,3600,2^32} thorough in window, symbolic 0..2^32 in base; u < 2^62. Contracts as C03.",
   design="DESIGN.md section 2/C04"),
 "C07": dict(
   text="DecodeSecret is executed from its SSA together with the standard library's base32 decoder ((*Encoding).DecodeString/decode/stripNewlines from their SSA bodies, StdEncoding built by executing encoding/base32's initialiser); strings.TrimSpace/ToUpper/Repeat are ASCII-exact intrinsics. For every byte string b of the case-split length the text is built by an independent spec encoder (5-bit groups mapped by arithmetic) with a free upper/lower-case bit per letter, no / canonical / every partial amount of padding and 0..2 leading and trailing white-space bytes from {space,\\t,\\n,\\r,\\v,\\f}; the solver proves DecodeSecret(text) == (b, nil) byte by byte. Rejection: for ASCII texts of length 1..8 (16 thorough) with a byte outside the alphabet at an arbitrary position, alphabet-only texts of length 1,3,6 mod 8, and '=' followed by an alphabet character, every path returns an error.",
   note="Bounds: |b| 0..10 quick, 0..20,25,32,33,64 thorough (of 0..256: the decoder works on independent 8-character quanta). Outside: non-ASCII bytes (Unicode case mapping / Unicode white space inside strings.ToUpper / TrimSpace are not modelled: such paths end as 'bound', never as holding), CR/LF inside the text (Go's decoder strips them). That all entry points hand their secret argument unchanged to DecodeSecret is asserted inside the DecodeSecret contract stub used by C02-C06/C13.",
   design="DESIGN.md section 2/C07"),
 "C08": dict(
   text="RandomSecret is executed from its SSA with crypto/rand.Read as the only nondeterministic stub (fills the buffer with fresh variables r_i) and the standard library's base32 encoder from its SSA ((*Encoding).WithPadding/EncodeToString/Encode). The solver proves for the three hashes that exactly one read of exactly 20/32/64 bytes is made and that the result equals, byte for byte, the unpadded upper-case base32 text of r (independent spec encoder), that DecodeSecret maps it back to r, that a second call uses only the second read's variables (syntactic independence from the first stream), and for every unsupported hash value that (\"\", err) is returned without touching the random source.",
   note="Bounds: none on the stream content; decode round-trip through the real decoder for 20 bytes quick, 20/32/64 thorough. Trusted: that crypto/rand.Reader is the OS CSPRNG and never repeats (its contract); a read error cannot be returned by crypto/rand.Read in Go 1.24 (it aborts the process), so no error outcome is modelled.",
   design="DESIGN.md section 2/C08"),
 "C14": dict(
   text="OCRAInput.Validate, SuiteConfig.Validate, RawSuite.Validate/Config and challengeLength are executed from their SSA with all five field lengths symbolic (0..140, or nil), every SuiteConfig field symbolic (hash 0..255, digits and time step any int, challenge format 0..6, password hash 0..3, five free flags): on every path the solver proves err == nil <=> the property's predicate (written once from its text as a formula over the lengths and fields) for both validators. Through GenerateOCRA / ValidateOCRA (hash, digits per case, everything else symbolic, undecodable secret as an extra failure cause) it proves success <=> decodable and usable and admitted, no code with an error, code length = digits, and (false, err) from validation whenever generation would fail.",
   note="Bounds: field lengths 0..140; enum values of ChallengeFormat / PasswordHashAlgorithm restricted to the declared constants (the property quantifies over formats and password hashes; with an undeclared PasswordHash the code only checks presence - observation, not alarmed on); entry harness: hash {0,2,3}, digits {6,11} quick, hash 0..3, digits {3,4,6,10,11} thorough. HMAC digests are fresh variables here.",
   design="DESIGN.md section 2/C14"),
 "C05": dict(
   text="GenerateOCRA/deriveRFC6287/padBytes/formatDecimal/truncate and both validators are executed from their SSA for each of the 32 subsets of {C,Q,P,S,T} (hand-built SuiteConfig and RawSuite wrapper, suite-string text of symbolic content, symbolic time step) with all five input fields of symbolic length 0..140 and symbolic content, and an adversarial pooled buffer (arbitrary length and content). On every admitted path the solver proves: one HMAC with the suite's hash under the decoded key; the message handed to HMAC equals, byte for byte, suite ‖ 00 ‖ [C:8] ‖ [Q right-padded to 128] ‖ [P] ‖ [S right-padded to 128] ‖ [T:8] built independently from the property text; unselected fields and the pooled buffer's previous content have no influence (syntactic check, 2-safety solver query when variables occur); the code is formatDecimal(truncate(D, 10^digits)). The arithmetic tail is proved for every digest against DT(D) mod 10^digits zero-padded (digits {4,6,8,10} quick, 4..10 thorough). Registered suites are instantiated by name and checked the same way (6 names quick, all 45 thorough).",
   note="Bounds: field lengths 0..140, suite string 24 bytes quick / 0 and 48 thorough, hash SHA-1 quick (all three thorough) in the layout harness (the hash only selects the constructor), challenge format / password hash one value quick, two thorough. HMAC digests are fresh variables shared between structurally identical (key,message) pairs. Admission (which inputs reach HMAC) is C14. Parsed, non-registered suite strings reach this code as a SuiteConfig with arbitrary Raw text, which is covered.",
   design="DESIGN.md section 2/C05"),
 "C06": dict(
   text="ValidateOCRA and GenerateOCRA are executed from their SSA on the same symbolic suite / input / secret (field lengths 0..140 symbolic, undecodable secret as an outcome, flags per case); the submitted string is arbitrary bytes, the generated code, the generated code with one byte replaced, or of wrong length. On every path the solver proves ok <=> (generation succeeds and string == generated code), ok <=> err == nil, and generation failure => (false, err); neither call panics, including for suites with digits -1, 0, 3, 11 and unsupported hashes (digits read before validation).",
   note="Bounds: subsets {Q},{C,Q},{Q,P},{Q,S},{all} quick, all 32 thorough; digits 6 quick, {4,10} thorough. The two derivations share digest variables when their (key, message) terms are structurally identical; a semantic-but-not-structural equality would surface as an unconfirmed model (engine error), never as a pass.",
   design="DESIGN.md section 2/C06"),
 "C10": dict(
   text="Every exported operation of package otp reached by a harness is executed from its SSA inside a panic-catching wrapper with fully symbolic value arguments (digits and hash bytes 0..255, any uint period/skew, any counter, any time.Time representation, nil or non-nil Param, symbolic SuiteConfig fields with extreme digits, symbolic-length byte fields incl. nil, ASCII strings of bounded length); the solver decides feasibility of every runtime-panic site (index, slice bounds, division, nil dereference, negative make, failed type assertion, negative strings.Repeat count): a feasible panic path is a violation with a natively replayed model; every loop carries an unwinding assertion (bound 40 for the derivation, 600 elsewhere) whose failure is reported as a violation of the bounded-work clause. The evidence lists the exported operations reached / not reached, discovered from the SSA package on every run.",
   note="Bounds: string arguments of the parsers and helpers 0..5 bytes, ASCII (DecodeSecret text <= 4/7 bytes quick/thorough, hex/decimal helpers <= 5); LeftPadHex widths 0..40 and 2^20; validation windows 0..2 and every refused value quick, 0..10 thorough. deriveRFC4226 and DecodeSecret are replaced by total contracts inside the window loops (each is itself checked for all arguments). Not reached here: GenerateTOTPURL/HOTPURL, ParseOTPAuthURL (C16), ParseDecimalChallengeRFC6287 (C17); excluded by the property: MustRawSuite, MustHexPadLeft, nil Suite, user-defined Suite, replaced TimeCounterFunc. Panics inside standard-library callees run from intrinsics are outside.",
   design="DESIGN.md section 2/C10"),
 "C11": dict(
   text="REDUCED CLAIM (schedules are not explored): per operation (GenerateHOTP, GenerateTOTP, GenerateOCRA; two consecutive calls with independent symbolic arguments; pooled buffers pre-filled by an adversary with arbitrary content and length) the executor tracks every store and pool Get/Put and the solver decides, for every argument value: stores go only to memory allocated by the call or to a pool object the call owns; nothing is accessed after Put; no returned value shares memory with a pool, a package-level object or an argument; results and HMAC messages are independent of pool content and of the other call's arguments (syntactic check, 2-safety query when variables occur); the first result is unchanged after the second call. Schedule independence and race freedom then follow by the reduction argument in DESIGN.md (calls that write only call-private and exclusively owned memory commute).",
   note="Not decided by this technique: actual interleavings, the Go memory model, GC emptying sync.Pool, the race detector; sync.Pool's own thread-safety and exclusivity of Get are its contract. Bounds as C05/C01 (digits {6,9} x hash {0,2} quick; OCRA subsets {Q},{all},{P,S} quick, all thorough).",
   design="DESIGN.md section 2/C11"),
 "C12": dict(
   text="GenerateOCRA/ValidateOCRA are executed with all five input fields as slices of symbolic length 0..140 over 144-byte arrays (spare capacity filled with arbitrary canary bytes) marked caller-owned, plus symbolic suite configuration; Generate/Validate HOTP/TOTP with caller-owned Param structs and nil; NewRawSuite/NewSuite/ListSuites/SuiteConfigFromRaws for registered names. On every path the solver proves every byte of every backing array (including behind len) equal to its initial variable, the configuration, the Param struct, both default parameter sets and all registry entries unchanged, no write event on caller-owned or package-level objects, results sharing no memory with arguments, and the registry unaffected by scribbling on every returned value.",
   note="Bounds: OCRA subsets {none},{Q},{C,Q,S},{all} quick, all 32 thorough; registered names 2 quick, 45 thorough. The in-place branch of append (len+n <= cap) on a caller slice is a solver-decided fork, so helpers that extend caller memory are found (checked with a seeded padBytes mutant). URL parameters: see C16.",
   design="DESIGN.md section 2/C12"),
 "C13": dict(
   text="(verdict) ValidateHOTP/ValidateTOTP with symbolic digits/hash bytes, window per case or any refused value, undecodable secret as an outcome, code length d-1/d/d+1: every path returns (true,nil) or (false,non-nil) - OCRA's pair is asserted in C06. (disclosure) Generate/Validate HOTP/TOTP/OCRA through the real base32 decoder with a symbolic key: on every path returning an error, the error value (sentinel identity, or format string + argument terms of fmt.Errorf, or an offset-carrying base32 error) is independent of the key variables and of every digest variable - syntactic check, then a 2-safety solver query; natively the replay checks that the error text contains neither the secret text nor the code generation returns. (badsecret) for arbitrary undecodable ASCII text the error carries no byte of the text.",
   note="Bounds: digits {6,11} quick / {0,1,6,8,9,10,11} thorough in disclosure; undecodable texts of 3,5 bytes quick, up to 9 thorough. The position reported by base32.CorruptInputError depends on which character is invalid, not on key material of a well-formed secret; it is allowed.",
   design="DESIGN.md section 2/C13"),
 "C09": dict(
   text="ValidateHOTP/ValidateTOTP/ValidateOCRA (with validate, validateRFC4226/6287 and crypto/subtle.ConstantTimeCompare from their SSA; real derivation for window 0 and the derivation's contract for windows 2 and 10) are executed with the submitted code as symbolic bytes of the right length while the executor records the observation trace: every branch decision on a symbolic condition and every variable-time comparison primitive (Go string ==, !=, <, map lookups keyed by strings, string(a)==string(b) as used by bytes.Equal) with its operands. Decided: (a) no recorded variable-time primitive has one operand depending on the code variables and the other on secret-derived values (HMAC output, the code function, key bytes); (b) 2-safety: for every pair of rejecting paths with different branch traces the solver proves that no two runs sharing secret, parameters, counter/time and digests but differing in the code take those two paths.",
   note="NATIVE BUILD ONLY at this point (the js/wasm entry points ValidateOTPWasm / wasm validate* and the REST handlers are listed under C20/C18). Leakage model: control flow and operands of variable-time comparisons; not caches, micro-architecture or the allocator. The property is structural (no timing can be observed natively), so a violation's replay is the deterministic re-analysis of the recorded harness instance (replay.json: analysis_only). Bounds: digits {6,10} quick / {1,6,8,9,10} thorough, windows {0,2,10}, OCRA subsets {Q},{all} quick.",
   design="DESIGN.md section 2/C09"),
 "C15": dict(
   text="(registry, exhaustive over the executed initialiser: 45 names) each advertised name is read by an independent position-based reader of the RFC 6287 naming scheme and compared field by field with the registry entry, SuiteConfigFromRaws, NewRawSuite(name).Config()/String()/Validate(), IsKnownSuite and the duplicate-free list whose length equals the registry size. (parser) strings are assembled from token schemata with symbolic characters (hash digits, code-digit text, challenge letter and two digits, optional PSHA digits, optional S + 0..3 arbitrary bytes, optional T + 1..2 characters + unit byte, optional C): parseRawSuite/parseCryptoFunction/parseDataInputTokens/parseTimeGranularity and strconv.Atoi run from their SSA; the solver proves that every component outside the scheme makes NewRawSuite fail and that every accepted string yields exactly the configuration its components denote (time step n*{1,60,3600}) and reports itself as its name. (malformed) wrong version character, version with a trailing character, fourth part, unknown token, missing parts, empty token are rejected for every value of the free byte.",
   note="Bounds: numbers of 1..2 characters (time, digits), 1..3 (hash, password hash); symbolic characters are ASCII and not ':' / '-' (a separator inside a token is another shape); 64 shapes quick, 432 thorough. Spec decisions: the advertised unit-less T1 means 1 second; S carries either no length or three digits. QA/QH formats of unregistered strings are rejected by the parser (allowed: rejected rather than approximated).",
   design="DESIGN.md section 2/C15"),
}

NA_REASON_PENDING = "not yet built in this session: no solver-based check registered (see DESIGN.md for the planned encoding)"

def main():
    props = [json.loads(l) for l in open('/verif/properties.jsonl')]
    checks, na = [], []
    for p in props:
        pid = p['id']
        if pid in CLAIMED:
            c = CLAIMED[pid]
            checks.append({
                "property_id": pid,
                "quick_cmd": f"./check {pid} --tier quick",
                "thorough_cmd": f"./check {pid} --tier thorough",
                "evidence_file": f"/verif/evidence/{pid}.json",
                "replay_cmd_template": f"./check {pid} --replay {{path}}",
                "engine": "gosym",
                "level_claimed": {"category": "model_checking", "text": c['text'], "design_ref": c['design']},
                "level_note": c['note'],
                "technique": c.get('technique', TECH),
            })
        else:
            na.append({"property_id": pid, "reason": NA.get(pid, NA_REASON_PENDING)})
    m = {
        "version": 1,
        "setup_cmd": "cd /verif/engine && GOFLAGS=-mod=mod GOPROXY=off go build -o /verif/bin/gosym . && /verif/bin/gosym selftest",
        "hooks": {
            "guard": "verif",
            "enable": "no tagged sources in /repo: harnesses are overlay files (/verif/harness/<pkg>/*.go mapped to <pkg dir>/zz_verif_*.go via go/packages Overlay for the encoder and `go test -overlay` for native replay)",
            "baseline_off_cmd": "cd /repo && go test -vet=off -count=1 ./... && cd /repo/internal/app && go test -vet=off -count=1 ./...",
            "source_commits": [],
            "add_only": True,
        },
        "engines": [{"name": "gosym", "path": "/verif/engine", "serves_properties": sorted(CLAIMED), "kind_free_text": "own symbolic executor over go/ssa (x/tools v0.29.0) emitting SMT-LIB2 for z3 4.8.12 / z3 5.1.0 / cvc5 1.0.3; path enumeration by re-execution; native replay of models with go test -overlay"}],
        "checks": checks,
        "not_applicable": na,
        "notes": "Fix commits in /repo are listed in /verif/known_findings.json (status fixed). Exit codes of ./check: 0 held within bounds, 1 VIOLATION (natively replayed), 2 ENGINE-ERROR (nothing believed).",
    }
    json.dump(m, open('/verif/MANIFEST.json', 'w'), indent=1)
    print("claimed", sorted(CLAIMED), "not_applicable", [x['property_id'] for x in na])

NA = {}
if __name__ == '__main__':
    main()
