#!/bin/bash
# tools/seedrun.sh <seed-name> <PROP> [extra check args]: run one check against a scratch copy of /repo with a stored seed applied
NAME="$1"; P="$2"; shift 2
T=$(mktemp -d /tmp/seedrepo.XXXXXX)
(cd /repo && git archive HEAD | tar -x -C "$T"); cp /repo/go.work.sum "$T"/ 2>/dev/null
(cd "$T" && patch -s -p1 < /verif/seeded/$NAME/patch.diff) || { echo "patch does not apply"; rm -rf "$T"; exit 2; }
cd /verif && timeout 1500 ./check $P --repo "$T" --out /tmp/seedrun_${NAME}_$P.json "$@" > /tmp/seedrun_${NAME}_$P.log 2>&1; RC=$?
rm -rf "$T"
echo "$NAME $P exit=$RC violations=$(grep -c '^VIOLATION' /tmp/seedrun_${NAME}_$P.log)"
grep -v "replay:" /tmp/seedrun_${NAME}_$P.log | grep -v "^VIOLATION" | cut -c1-260 | tail -5
