#!/bin/bash
# runs every registered check (tier $1, default quick) against /repo and prints one line each
TIER="${1:-quick}"
cd /verif
for p in $(python3 -c "import json;print(' '.join(c['property_id'] for c in json.load(open('/verif/MANIFEST.json'))['checks']))"); do
  T0=$(date +%s)
  timeout 7200 ./check $p --tier $TIER > /tmp/runall_$p.log 2>&1; RC=$?
  T1=$(date +%s)
  echo "$p exit=$RC $((T1-T0))s $(tail -1 /tmp/runall_$p.log | sed 's/.*harness_instances/instances/' | cut -c1-200)"
done
