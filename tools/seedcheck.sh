#!/bin/bash
# tools/seedcheck.sh <PROP> <worktree> <name> [extra props to run]
# Confirms a seeded change (compiles, existing tests pass, demo fails with / passes without),
# stores it under /verif/seeded/<name>/ and runs the property's check against it.
set -u
PROP="$1"; WT="$2"; NAME="$3"; shift 3
OUT=/verif/seeded/$NAME
mkdir -p "$OUT"
export GOFLAGS= GOPROXY=off
cd "$WT" || exit 2
git diff > "$OUT/patch.diff"
DEMODIR=.
[ -f internal/app/api/zz_demo_test.go ] && DEMODIR=internal/app/api
cp $DEMODIR/zz_demo_test.go "$OUT/zz_demo_test.go" 2>/dev/null
echo "$DEMODIR" > "$OUT/demo_dir.txt"
cp SEED_NOTES.md "$OUT/SEED_NOTES.md" 2>/dev/null
[ -s "$OUT/patch.diff" ] || { echo "no patch"; exit 2; }
BUILD=$( (go build ./... && cd internal/app && go build ./...) 2>&1 | tail -3)
EXIST=$(go test -count=1 -skip 'TestSeedDemo' ./... 2>&1 | tail -2 | tr '\n' ' ')
DEMO_WITH=$( (cd $DEMODIR && go test -count=1 -run 'TestSeedDemo$' . 2>&1) | tail -1)
# (no git stash: the stash is shared between worktrees of one repository)
git checkout -q -- .
DEMO_WITHOUT=$( (cd $DEMODIR && go test -count=1 -run 'TestSeedDemo$' . 2>&1) | tail -1)
git apply "$OUT/patch.diff"
echo "build: [$BUILD] existing: [$EXIST] demo with: [$DEMO_WITH] demo without: [$DEMO_WITHOUT]"
# run the checks against the repository with the patch applied: /repo itself (SEED_REPO unset,
# as the brief prescribes) or a scratch copy (SEED_REPO=copy, lets several evaluations run in parallel)
TARGET=/repo
if [ "${SEED_REPO:-}" = "copy" ]; then
  TARGET=$(mktemp -d /tmp/seedrepo.XXXXXX)
  (cd /repo && git archive HEAD | tar -x -C "$TARGET") && cp /repo/go.work.sum "$TARGET"/ 2>/dev/null
fi
cd "$TARGET" && { if [ "$TARGET" = /repo ]; then git apply "$OUT/patch.diff"; else patch -s -p1 < "$OUT/patch.diff"; fi; } || { echo "patch does not apply"; exit 2; }
RES=""
for P in $PROP "$@"; do
  T0=$(date +%s)
  (cd /verif && timeout 1500 ./check $P --repo "$TARGET" --out "$OUT/evidence_$P.json" > "$OUT/check_$P.log" 2>&1); RC=$?
  T1=$(date +%s)
  V=$(grep -c '^VIOLATION' "$OUT/check_$P.log")
  RES="$RES $P:exit=$RC,violations=$V,$((T1-T0))s"
done
cd /; if [ "$TARGET" = /repo ]; then git -C /repo checkout -- .; else rm -rf "$TARGET"; fi
echo "checks:$RES"
python3 - "$PROP" "$NAME" "$BUILD" "$EXIST" "$DEMO_WITH" "$DEMO_WITHOUT" "$RES" <<'PY'
import json,sys
prop,name,build,exist,dw,dwo,res=sys.argv[1:8]
meta={"property":prop,"name":name,"source":"independent sub-agent given only the property text and a scratch worktree",
 "confirmed":{"build":build or "ok","existing_tests_with_change":exist,"demo_with_change":dw,"demo_without_change":dwo},
 "checks_run_against_it":res.strip()}
try:
    meta["needs_to_manifest"]=open(f"/verif/seeded/{name}/SEED_NOTES.md").read()[:3000]
except Exception: pass
json.dump(meta,open(f"/verif/seeded/{name}/meta.json","w"),indent=1)
PY
